"""C18 — a crash while writing a checkpoint never loses the last good one (DESIGN 4 C18, A.3).

The *real* `torchtree.core.parameter_utils.save_parameters` (imported from the tree under test on every
run) is executed with `open`, `json`, `os` replaced in its module namespace by the POSIX contract stubs
of `vt.fsmodel`, acting on a ghost image
    {name, name.old, name.new} -> absent | complete(v) | partial(v) | mixed
with opaque contents.  A crash is a BaseException raised by a stub at a chosen crash point; all crash
points are enumerated (first an uninstrumented run counts the stub events).

  Inv1  some file of the three is complete(v) with v a good checkpoint (a previous one or the new one)
  Inv2  fs[name] is absent or complete — the checkpoint name never refers to a truncated file
  NoMix every complete file (closed after exactly one whole dump) holds a good checkpoint.  A closed file that
        is made of more than one piece is `mixed`: not a checkpoint — it counts like `partial` (harmless in a
        sibling, a violation of Inv2 under the checkpoint name)

Obligations
  C18.callsites.flags              which flags the call sites in the package pass (AST scan of the real tree)
  C18.a.crash / C18.a.exit         main clause from fs[name]=complete(v0), siblings in any state, call-site flags
  C18.a.site.*                     the same through the real MCMC.save_full_state / Optimizer.save_full_state
  C18.b.reach / C18.b.step         Inv1 & Inv2 inductive over "crash, then call again" on the set of abstract
                                   states reachable from the good state (fix-point over the real function)
  C18.api.overwrite.* / C18.api.unsafe.frame   public flag values that no checkpoint call site uses on an
                                   existing file
  C18.vacuity.*                    must-fail twins;  C18.guard.*  abstract-vs-real cross-check of the stubs
"""
from __future__ import annotations

import ast
import importlib
import inspect
import json
import contextlib
import os
import shutil
import sys
import tempfile
import time
import types

from vt import fsmodel
from vt.cond import Undecided
from vt.fsmodel import ABSENT, COMPLETE, MIXED, PARTIAL, Crash, GhostFS, RealFS, Token
from vt.runner import Ob, Refuted

MOD = "torchtree.core.parameter_utils"
FN = "save_parameters"
SITES = {
    "save_parameters": None,
    "MCMC.save_full_state": ("torchtree.inference.mcmc.mcmc", "MCMC", "MCMC"),
    "Optimizer.save_full_state": ("torchtree.optim.optimizer", "Optimizer", "Optimizer"),
}

FUNCS = [
    "torchtree.core.parameter_utils:save_parameters",
    "torchtree.inference.mcmc.mcmc:MCMC.save_full_state",
    "torchtree.optim.optimizer:Optimizer.save_full_state",
]

ROLES = ("name", "old", "new")
SUFFIX = {"name": "", "old": ".old", "new": ".new"}
GHOST_NAME = "/vt-ghost-fs/run/checkpoint.json"  # does not exist: an unstubbed file-system call cannot touch anything
FLAGSETS = {"default": {}, "overwrite": {"overwrite": True}, "unsafe": {"safely": False}}
GOOD = (COMPLETE, ABSENT, ABSENT)  # the state after a successful checkpoint write

META = {
    "level": "proof",
    "explanation": "Each obligation runs the real save_parameters (or the real save_full_state call site) against the "
                   "ghost file-system image once per crash point; the abstract state space is finite (3 files x "
                   "{absent, complete, partial, mixed}) and contents are opaque tokens, so the case analysis is complete "
                   "for every content and every number of consecutive interrupted writes (reachability fix-point). "
                   "Each crash state yields one z3 implication (facts about the image |- Inv1 & Inv2 & NoMix) which is "
                   "also decided directly; the two must agree. C18.guard.* and C18.vacuity.* are guards, not claims.",
    "bound": "unbounded in contents and in the number of interrupted writes; partial writes per dump: 2 (quick) / 5 (thorough) — "
             "the abstract state after any partial write is the same, so the granularity does not change the verdict",
    "exhaustive": True,
    "trusted_base": [
        "POSIX contracts (process-crash model, no power failure): " + "; ".join(fsmodel.CONTRACTS),
        "Python semantics are executed natively by CPython 3.12 on the unmodified function object (with-statement, exception propagation, argument binding)",
        "stubs installed in the namespace of torchtree.core.parameter_utils for one obligation: " + ", ".join(fsmodel.STUBBED_NAMES),
        "z3 (enumeration sort for file kinds, uninterpreted sort for contents)",
    ],
    "assumptions": [
        "process death only - by a kill (nothing runs afterwards) or by an exception raised at the crash point (finally-clauses and context managers of the code under contract run first, with the file system alive): data handed to the OS is not lost and rename is atomic (no fsync / power-failure reasoning)",
        "POSIX rename semantics (os.rename replaces an existing destination); Windows is out of scope",
        "no other process touches the three files; no symbolic links",
        "safely=False is an explicit opt-out of the guarantee: no call site passes it (checked by C18.callsites.flags); only its frame/exit contract is verified",
        "a first write to a name that does not exist yet is outside the statement ('written over an existing one'); name=absent is covered only where it is reachable by crashes from a good state",
        "JSON serialisation itself (ParameterEncoder) is not verified here: json.dump is the contract 'writes enc(obj) in >= 2 partial writes'",
    ],
}

MANIFEST = {
    "category": "proof",
    "text": "The real save_parameters is executed against a ghost file-system image under assumed POSIX contracts; the process "
            "dies - by a kill, or by an exception raised there so that finally-clauses and context managers still run - at every point "
            "before/after every file-system call and after every partial write. From "
            "name=complete(v0) (all 9 sibling configurations, the flags the call sites pass, also through the real "
            "MCMC/Optimizer.save_full_state) every crash state keeps a complete unmixed checkpoint and never leaves name "
            "truncated, and the exit state is name=complete(new). For fault sequences the set of abstract states reachable by "
            "crashed/successful calls is computed by fix-point over the real function and Inv1 & Inv2 is checked inductive on it, "
            "which covers any number of consecutive interrupted writes.",
    "note": "Process-crash model only (no power failure, no fsync reasoning); POSIX rename; contents opaque (ParameterEncoder not "
            "verified here); safely=False is treated as the caller's opt-out and a first write to a fresh name is outside the "
            "statement. Refutations are replayed on a real temporary directory with real files.",
    "technique": "sidecar contract on the real function + module-namespace contract stubs over a ghost file-system image + "
                 "exhaustive crash-point enumeration + reachability fix-point + z3 implications",
}


# ================================================================================================
# locating and calling the real code
# ================================================================================================
def _locate():
    try:
        mod = importlib.import_module(MOD)
        fn = getattr(mod, FN)
    except Exception as e:  # noqa: BLE001
        raise Undecided("cannot locate %s:%s (%s: %s)" % (MOD, FN, type(e).__name__, e))
    if not inspect.isfunction(fn):
        raise Undecided("%s:%s is no longer a plain function" % (MOD, FN))
    home = sys.modules.get(fn.__module__)
    if home is None or fn.__globals__ is not vars(home):
        raise Undecided("%s:%s is defined in a namespace that cannot be stubbed" % (MOD, FN))
    return fn, home


def _flags_supported(fn, flags):
    params = inspect.signature(fn).parameters
    missing = [k for k in flags if k not in params]
    if missing:
        raise Undecided("save_parameters has no parameter %s any more" % ",".join(missing))


def _call(site, fn, name, payload, flags, real_tag=None):
    """one checkpoint write through `site`.  payload: opaque Token (ghost) or list of real Parameters (real)."""
    if site == "save_parameters":
        _flags_supported(fn, flags)
        return fn(name, payload, **flags)
    modname, clsname, typ = SITES[site]
    try:
        cls = getattr(importlib.import_module(modname), clsname)
        meth = cls.save_full_state
        sm = sys.modules[meth.__module__]
    except Exception as e:  # noqa: BLE001
        raise Undecided("cannot locate call site %s (%s)" % (site, e))
    if getattr(sm, FN, None) is not fn:
        raise Undecided("call site %s no longer calls %s:%s" % (site, MOD, FN))
    params = payload if isinstance(payload, list) else [payload]
    proxy = types.SimpleNamespace(id="sampler", checkpoint=name, parameters=params,
                                  state_dict=lambda: {"iteration": real_tag if real_tag is not None else 0})
    sig = inspect.signature(meth)
    if "checkpoint" in sig.parameters:
        return meth(proxy, name, **flags)
    if flags:
        raise Undecided("%s takes no flags" % site)
    return meth(proxy)


def _path(role, name=None):
    return (GHOST_NAME if name is None else name) + SUFFIX[role]


@contextlib.contextmanager
def _named(basename):
    """run a block with another checkpoint file name (the property quantifies over the name: with or without a .json extension, dots, dashes)"""
    g = globals()
    old = g["GHOST_NAME"]
    g["GHOST_NAME"] = os.path.join(os.path.dirname(old), basename)
    try:
        yield
    finally:
        g["GHOST_NAME"] = old


# ================================================================================================
# abstract runs
# ================================================================================================
def _pre_tokens(pre):
    """pre: tuple of kinds for (name, old, new) -> {role: (kind, Token|None)} with a fresh token per file"""
    labels = {"name": "v0", "old": "s_old", "new": "s_new"}
    return {r: (k, None if k == ABSENT else Token(labels[r])) for r, k in zip(ROLES, pre)}


def _snapshot(fs):
    out = {}
    for r in ROLES:
        out[r] = fs.get(_path(r))
    extra = sorted(p for p in fs.files if p not in {_path(r) for r in ROLES})
    return out, extra


def abs_run(pre_tok, flags, crash_at, steps, site="save_parameters", fn_mod=None, death="kill"):
    """run the real code once on the ghost image.  returns dict(fs, snap, new, outcome, error)"""
    fn, mod = fn_mod or _locate()
    fs = GhostFS(steps=steps, crash_at=crash_at, death=death)
    for r, (k, t) in pre_tok.items():
        fs.preset(_path(r), k, t)
    new = Token("v_new")
    outcome, err = "returned", None
    with fsmodel.installed(mod, fs):
        try:
            _call(site, fn, GHOST_NAME, new, flags)
        except Crash:
            outcome = "crashed"
        except fsmodel.Unwind:
            outcome = "crashed"        # the exception left the function under contract: the process ends here
        except Undecided:
            raise
        except Exception as e:  # noqa: BLE001
            if getattr(e, "_vt_model", False):
                outcome, err = "raised", "%s: %s" % (type(e).__name__, e)
            else:
                raise Undecided("the function raised %s: %s under the ghost file system (a file-system API without "
                                "contract, or the opaque payload was inspected)" % (type(e).__name__, e))
    if fs.unmodelled:
        raise Undecided("; ".join(fs.unmodelled))
    if fs.crashed:
        outcome = "crashed"
    if fs.unwound and outcome != "crashed":
        # the code under contract swallowed the exception and went on: not a death of the process (nothing to claim for this point)
        outcome = "swallowed"
    if outcome == "returned" and fs.open_handles:
        raise Undecided("file left open at return (%s): completion would rely on garbage collection" % fs.open_handles)
    snap, extra = _snapshot(fs)
    return {"fs": fs, "snap": snap, "extra": extra, "new": new, "outcome": outcome, "error": err}


class _UnwindPoint(int):
    """crash point j at which the process dies from an exception (handlers run) rather than from a kill"""
    death = "unwind"


def crash_states(pre_tok, flags, steps, site="save_parameters"):
    """all crash states of one call: [(j, label, snap, new_token_ids)], plus the reference run"""
    fm = _locate()
    ref = abs_run(pre_tok, flags, None, steps, site, fm)
    n = len(ref["fs"].events)
    if n == 0:
        raise Undecided("no file-system event observed: the stubs were not reached (0 crash points)")
    out = []
    for j in range(n):
        r = abs_run(pre_tok, flags, j, steps, site, fm)
        if r["outcome"] != "crashed" or r["fs"].events != ref["fs"].events[:j]:
            raise Undecided("the event sequence is not reproducible (crash point %d)" % j)
        out.append((j, fsmodel.describe_point(j, ref["fs"].events), r["snap"], r["new"]))
        # the same instant, the process dying from an exception raised there: finally-clauses / context managers run first
        r2 = abs_run(pre_tok, flags, j, steps, site, fm, death="unwind")
        if r2["fs"].events[:j] != ref["fs"].events[:j]:
            raise Undecided("the event sequence is not reproducible (crash point %d, death by exception)" % j)
        if r2["outcome"] == "crashed":
            out.append((_UnwindPoint(j), fsmodel.describe_point(j, ref["fs"].events) + " [death by an exception raised there: handlers have run]", r2["snap"], r2["new"]))
    # crash after the last file-system call == the state in which the call ends (returned or raised)
    out.append((n, fsmodel.describe_point(n, ref["fs"].events), ref["snap"], ref["new"]))
    return out, ref


def _valid_tokens(pre_tok, new):
    return [t for (k, t) in pre_tok.values() if k == COMPLETE] + [new]


def _is_new(content, new):
    """the content written by this call: the payload itself, or (call sites) the state list that ends with it"""
    return content is new or (isinstance(content, list) and len(content) > 0 and content[-1] is new)


def _good(rec, valid, new):
    kind, content = rec
    return kind == COMPLETE and len(content) == 1 and (any(content[0] is v for v in valid) or _is_new(content[0], new))


def _abstract(snap, valid, new):
    """abstract state = file kinds; 'complete' means complete with a good checkpoint (anything else that is closed
    but is not one good checkpoint is 'mixed', which counts like 'partial': not a usable checkpoint)"""
    out = []
    for r in ROLES:
        kind, content = snap[r]
        if kind == COMPLETE and not _good(snap[r], valid, new):
            kind = MIXED
        out.append(kind)
    return tuple(out)


def _snap_json(snap):
    return {r: [snap[r][0]] + [fsmodel.label_of(c) if not isinstance(c, str) else c for c in snap[r][1]] for r in ROLES}


def _fmt_state(kinds):
    return "|".join("%s:%s" % (r, k) for r, k in zip(ROLES, kinds))


# ================================================================================================
# the implications, by z3 and directly
# ================================================================================================
_Z3_SORTS = {}


def _z3_check(snap, valid, new, goal="inv"):
    """facts(snap) |- goal ?   returns (holds, failed_conjuncts, model_text).  goal: 'inv' | 'name_is_new'"""
    import z3
    from vt import smt
    t0 = time.time()
    if "kind" not in _Z3_SORTS:
        _Z3_SORTS["kind"] = z3.EnumSort("Kind", [ABSENT, COMPLETE, PARTIAL, MIXED])
        _Z3_SORTS["content"] = z3.DeclareSort("Content")
    Kind, (k_abs, k_com, k_par, k_mix) = _Z3_SORTS["kind"]
    kmap = {ABSENT: k_abs, COMPLETE: k_com, PARTIAL: k_par, MIXED: k_mix}
    Content = _Z3_SORTS["content"]
    consts = {}

    def const(obj):
        key = id(obj)
        if key not in consts:
            consts[key] = z3.Const("c_%s_%d" % ("".join(ch for ch in fsmodel.label_of(obj) if ch.isalnum()), len(consts)), Content)
        return consts[key]

    kind = {r: z3.Const("kind_" + r, Kind) for r in ROLES}
    cont = {r: z3.Const("cont_" + r, Content) for r in ROLES}
    facts = []
    for r in ROLES:
        kd, content = snap[r]
        facts.append(kind[r] == kmap[kd])
        if len(content) == 1 and not isinstance(content[0], str):
            facts.append(cont[r] == const(content[0]))
    goods = [const(v) for v in valid]
    for r in ROLES:  # the new checkpoint as written through a call site (state list ending with the payload)
        c = snap[r][1]
        if len(c) == 1 and _is_new(c[0], new):
            goods.append(const(c[0]))
    goods.append(const(new))

    def is_good(r):
        return z3.And(kind[r] == k_com, z3.Or([cont[r] == g for g in goods]))

    conj = {}
    if goal == "inv":
        conj["Inv1"] = z3.Or([is_good(r) for r in ROLES])
        conj["Inv2"] = z3.Or(kind["name"] == k_abs, kind["name"] == k_com)
        conj["NoMix"] = z3.And([z3.Implies(kind[r] == k_com, is_good(r)) for r in ROLES])
    elif goal == "name_is_new":
        news = [const(new)] + [const(snap[r][1][0]) for r in ROLES if len(snap[r][1]) == 1 and _is_new(snap[r][1][0], new)]
        conj["name=complete(new)"] = z3.And(kind["name"] == k_com, z3.Or([cont["name"] == g for g in news]))
    else:
        raise ValueError(goal)
    failed, model_text = [], None
    for nm, g in conj.items():
        s = z3.Solver()
        s.set("timeout", 10000)
        s.add(*facts)
        s.add(z3.Not(g))
        res = s.check()
        smt.STATS["queries"] += 1
        if res == z3.unknown:
            smt.STATS["unknown"] += 1
            raise Undecided("z3 unknown on a finite-domain implication (%s)" % nm)
        if res == z3.sat:
            failed.append(nm)
            model_text = model_text or str(s.model())
    smt.STATS["seconds"] += time.time() - t0
    return (not failed), failed, model_text


def _direct_check(snap, valid, new, goal="inv"):
    failed = []
    if goal == "inv":
        if not any(_good(snap[r], valid, new) for r in ROLES):
            failed.append("Inv1")
        if snap["name"][0] not in (ABSENT, COMPLETE):
            failed.append("Inv2")
        if any(snap[r][0] == COMPLETE and not _good(snap[r], valid, new) for r in ROLES):
            failed.append("NoMix")
    else:
        kd, c = snap["name"]
        if not (kd == COMPLETE and len(c) == 1 and _is_new(c[0], new)):
            failed.append("name=complete(new)")
    return failed


def check_state(snap, valid, new, goal="inv"):
    ok, failed, model = _z3_check(snap, valid, new, goal)
    direct = _direct_check(snap, valid, new, goal)
    if sorted(failed) != sorted(direct):
        raise RuntimeError("z3 and the direct case analysis disagree on %s: %s vs %s" % (_snap_json(snap), failed, direct))
    return ok, failed, model


# ================================================================================================
# real replay
# ================================================================================================
def _gen(tag):
    """a real checkpoint payload: list of real Parameters, distinguishable by `tag`"""
    import torch
    from torchtree.core.parameter import Parameter
    return [Parameter("theta", torch.tensor([tag + 0.25, tag + 0.5]))]


def _gen_text(tag):
    from torchtree.core.parameter_encoder import ParameterEncoder
    full = [{"id": "sampler", "type": "MCMC", "iteration": tag}] + _gen(tag)
    return json.dumps(full, cls=ParameterEncoder, indent=2)


def _classify_real(path, tags):
    """-> (kind, label) of a real file: complete iff it parses as JSON and is one of the known generations"""
    if not os.path.lexists(path):
        return (ABSENT, None)
    with open(path) as f:
        text = f.read()
    try:
        data = json.loads(text)
    except ValueError:
        return (PARTIAL, "unparseable, %d bytes" % len(text))
    try:
        tensor = data[-1]["tensor"]
        for label, tag in tags.items():
            if tensor == [tag + 0.25, tag + 0.5] and all(d.get("iteration", tag) == tag for d in data[:-1]):
                return (COMPLETE, label)
    except Exception:  # noqa: BLE001
        pass
    return (MIXED, "parses but is no known checkpoint")


def real_sequence(args):
    """drive the real code on a real temporary directory through args['calls']; returns the list of real
    directory states after each call and the event logs"""
    fn, mod = _locate()
    site = args.get("site", "save_parameters")
    steps = int(args.get("steps", 2))
    tmp = tempfile.mkdtemp(prefix="vt-c18-")
    real_tmp = os.path.realpath(tmp)
    for forbidden in ("/repo", "/verif", os.path.realpath(os.environ.get("VERIF_REPO", "/repo"))):
        if real_tmp == forbidden or real_tmp.startswith(forbidden.rstrip("/") + "/"):
            shutil.rmtree(tmp, ignore_errors=True)
            raise RuntimeError("temporary directory %s lies inside %s" % (tmp, forbidden))
    try:
        name = os.path.join(tmp, os.path.basename(GHOST_NAME))
        tags = {"v0": 100, "s_old": 80, "s_new": 90}
        pre_label = {"name": "v0", "old": "s_old", "new": "s_new"}
        for r in ROLES:
            kind = args["pre"][r][0] if isinstance(args["pre"][r], (list, tuple)) else args["pre"][r]
            text = _gen_text(tags[pre_label[r]])
            if kind == COMPLETE:
                with open(_path(r, name), "w") as f:
                    f.write(text)
            elif kind == PARTIAL:
                with open(_path(r, name), "w") as f:
                    f.write(text[: len(text) // 2])
            elif kind == MIXED:
                with open(_path(r, name), "w") as f:
                    f.write(text + text)
        states, logs, outcomes = [], [], []
        for i, call in enumerate(args["calls"]):
            tag = 101 + i
            label = "v%d" % (i + 1)
            tags[label] = tag
            fs = RealFS(steps=steps, crash_at=call.get("crash_point"), death=call.get("death", "kill"))
            outcome = "returned"
            with fsmodel.installed(mod, fs):
                try:
                    _call(site, fn, name, _gen(tag), dict(call.get("flags") or {}), real_tag=tag)
                except Crash:
                    outcome = "crashed"
                except fsmodel.Unwind:
                    outcome = "crashed"
                except OSError as e:
                    outcome = "raised %s" % type(e).__name__
                finally:
                    fs.abandon()
            if fs.crashed:
                outcome = "crashed"
            state = {r: list(_classify_real(_path(r, name), tags)) for r in ROLES}
            others = sorted(set(os.listdir(tmp)) - {os.path.basename(_path(r, name)) for r in ROLES})
            states.append(state)
            logs.append([list(e) for e in fs.events])
            outcomes.append(outcome)
            if others:
                state["_other_files"] = others
        return {"states": states, "events": logs, "outcomes": outcomes}
    finally:
        shutil.rmtree(tmp, ignore_errors=True)


def _real_inv(state):
    failed = []
    if not any(state[r][0] == COMPLETE for r in ROLES):
        failed.append("Inv1")
    if state["name"][0] not in (ABSENT, COMPLETE):
        failed.append("Inv2")
    if any(state[r][0] == MIXED for r in ROLES):
        failed.append("NoMix")
    return failed


def replay_fs(args):
    """replay a recorded witness on the real code and a real directory.  (ok, msg): ok=False <=> failure reproduced"""
    res = real_sequence(args)
    final = res["states"][-1]
    goal = args.get("goal", "inv")
    if goal == "inv":
        failed = _real_inv(final)
    else:
        want = "v%d" % len(args["calls"])
        failed = [] if final["name"] == [COMPLETE, want] else ["name=complete(new)"]
    lines = ["site=%s steps=%d pre=%s" % (args.get("site", "save_parameters"), int(args.get("steps", 2)),
                                           {r: (args["pre"][r][0] if isinstance(args["pre"][r], (list, tuple)) else args["pre"][r]) for r in ROLES})]
    for i, call in enumerate(args["calls"]):
        lines.append("call %d flags=%s crash_point=%s (%s) -> %s; real directory: %s"
                     % (i + 1, call.get("flags") or {}, call.get("crash_point"), call.get("at", ""), res["outcomes"][i],
                        {r: res["states"][i][r] for r in ROLES}))
    if failed:
        what = []
        if "Inv1" in failed:
            what.append("no complete parseable checkpoint under name/.old/.new")
        if "Inv2" in failed:
            what.append("the checkpoint name refers to a truncated file")
        if "NoMix" in failed:
            what.append("a file parses but is not one checkpoint")
        if "name=complete(new)" in failed:
            what.append("after an uninterrupted call the checkpoint name does not hold the new checkpoint")
        lines.append("FAILS on real files: %s [%s]" % ("; ".join(what), ",".join(failed)))
        return False, "\n".join(lines)
    lines.append("real directory satisfies the contract")
    return True, "\n".join(lines)


def _refute(detail, pre, calls, steps, site, snap, failed, goal="inv", extra=None):
    witness = {"site": site, "steps": steps, "pre": {r: [k] for r, k in zip(ROLES, pre)}, "calls": calls,
               "resulting_state": _snap_json(snap), "violated": failed, "goal": goal}
    if extra:
        witness.update(extra)
    args = {k: witness[k] for k in ("site", "steps", "pre", "calls", "goal", "resulting_state", "violated")}
    try:
        ok, msg = replay_fs(args)
        confirmed = not ok
        witness["replay_output"] = msg
    except Exception as e:  # noqa: BLE001
        confirmed = False
        witness["replay_output"] = "replay could not be run: %s: %s" % (type(e).__name__, e)
    raise Refuted(detail, witness=witness,
                  replay={"kind": "custom", "contract": "C18", "func": "replay_fs", "args": args},
                  confirmed=confirmed)


# ================================================================================================
# obligations
# ================================================================================================
def _ob_crash(pre, flagname, steps, site="save_parameters", paths=((),)):
    """every crash state of one call from abstract pre-state `pre` satisfies Inv1 & Inv2 & NoMix.
    paths: alternative call sequences that lead from the good state to `pre` (() = `pre` is the start state);
    they only matter for choosing a witness whose replay on real files exhibits the failure."""
    flags = FLAGSETS[flagname]
    pre_tok = _pre_tokens(pre)
    states, ref = crash_states(pre_tok, flags, steps, site)
    bad = []
    for j, label, snap, new in states:
        ok, failed, model = check_state(snap, _valid_tokens(pre_tok, new), new)
        if not ok:
            bad.append((j, label, snap, failed, model))
    if bad:
        nev = len(ref["fs"].events)
        cands = [(list(pc), b) for pc in paths for b in bad][:40]
        chosen, tried = None, 0
        for pc, (j, label, snap, failed, model) in cands:
            calls = pc + [{"flags": flags, "crash_point": (int(j) if j < nev else None), "death": getattr(j, "death", "kill"), "at": label}]
            tried += 1
            try:
                ok, _ = replay_fs({"site": site, "steps": steps, "pre": {r: [k] for r, k in zip(ROLES, GOOD if pc else pre)},
                                   "calls": calls, "goal": "inv"})
            except Exception:  # noqa: BLE001
                ok = True
            if not ok:
                chosen = (pc, (j, label, snap, failed, model))
                break
        pc, (j, label, snap, failed, model) = chosen or cands[0]
        calls = pc + [{"flags": flags, "crash_point": (int(j) if j < nev else None), "death": getattr(j, "death", "kill"), "at": label}]
        start = GOOD if pc else pre
        _refute("from %s (flags=%s, site=%s) a crash at point %d [%s] leaves %s: %s violated%s; z3 model of facts & not goal: %s"
                % (_fmt_state(pre), flagname, site, j, label, _snap_json(snap), ",".join(failed),
                   (" (pre-state reached from the good state by crash points %s)" % [c["crash_point"] for c in pc]) if pc else "",
                   model),
                start, calls, steps, site, snap, failed,
                extra={"abstract_pre_of_last_call": _fmt_state(pre),
                       "all_violating_points": [[b[0], b[1], b[3]] for b in bad],
                       "witness_candidates_replayed": tried,
                       "events": [list(e) for e in ref["fs"].events]})
    return {"backend": "enum+z3", "cases": len(states), "crash_points": len(states), "events": len(ref["fs"].events),
            "statement": "forall crash point j in 0..%d of %s(%s) from %s: facts(fs_j) |- Inv1 & Inv2 & NoMix"
                         % (len(states) - 1, site, flagname, _fmt_state(pre)),
            "event_log": ["%s(%s)" % (e[0], ",".join(map(str, e[1:]))) for e in ref["fs"].events]}


def _ob_exit(pre, flagname, steps, site="save_parameters"):
    flags = FLAGSETS[flagname]
    pre_tok = _pre_tokens(pre)
    ref = abs_run(pre_tok, flags, None, steps, site)
    if len(ref["fs"].events) == 0:
        raise Undecided("no file-system event observed: the stubs were not reached")
    snap, new = ref["snap"], ref["new"]
    failed = []
    if ref["outcome"] != "returned":
        failed.append("returns normally (%s)" % ref["error"])
    ok, f2, model = check_state(snap, _valid_tokens(pre_tok, new), new, goal="name_is_new")
    failed += f2
    if failed:
        _refute("an uninterrupted %s(%s) from %s ends in %s: %s" % (site, flagname, _fmt_state(pre), _snap_json(snap), ",".join(failed)),
                pre, [{"flags": flags, "crash_point": None, "at": "no crash"}], steps, site, snap, failed, goal="name_is_new")
    return {"backend": "enum+z3", "cases": 1, "statement": "no crash: %s(%s) from %s returns and fs[name]=complete(new); exit state %s"
            % (site, flagname, _fmt_state(pre), _snap_json(snap))}


def _reach(flagname, steps, site="save_parameters"):
    """fix-point: abstract states reachable from GOOD by crashed or completed calls.  parent pointers give a
    shortest call sequence.  States violating Inv are recorded but not expanded."""
    flags = FLAGSETS[flagname]
    parent = {GOOD: None}
    alts = {GOOD: []}
    order = [GOOD]
    queue = [GOOD]
    while queue:
        s = queue.pop(0)
        if not _abs_inv(s):
            continue
        pre_tok = _pre_tokens(s)
        states, ref = crash_states(pre_tok, flags, steps, site)
        n = len(ref["fs"].events)
        for j, label, snap, new in states:
            t = _abstract(snap, _valid_tokens(pre_tok, new), new)
            hop = (s, j if j < n else None, label)
            if t not in parent:
                parent[t] = hop
                alts[t] = []
                order.append(t)
                queue.append(t)
            if t != GOOD:
                alts[t].append(hop)
    return parent, order, alts


def _abs_inv(s):
    return COMPLETE in s and s[0] in (ABSENT, COMPLETE)


def _path_to(parent, s, flags):
    calls = []
    while parent[s] is not None:
        p, j, label = parent[s]
        calls.append({"flags": flags, "crash_point": (None if j is None else int(j)), "death": getattr(j, "death", "kill"), "at": label})
        s = p
    return list(reversed(calls))


def _ob_reach(flagname, steps):
    parent, order, _ = _reach(flagname, steps)
    if GOOD not in parent or len(order) < 2:
        raise Undecided("reachability fix-point is degenerate (%s): the function never changes the files the contract has a role for "
                        "(<name>, <name>.old, <name>.new) - it writes elsewhere" % [_fmt_state(x) for x in order])
    return {"backend": "enum", "cases": len(order),
            "statement": "least fix-point of {good} under 'call with flags=%s, crash at any point or complete': %d abstract states: %s; "
                         "violating Inv (not expanded): %s" % (flagname, len(order), [_fmt_state(s) for s in order],
                                                                [_fmt_state(s) for s in order if not _abs_inv(s)])}


def _ob_step(pre, flagname, steps):
    parent, order, alts = _reach(flagname, steps)
    if pre not in parent:
        raise Undecided("pre-state %s is not reachable in this run (the tree changed between building and running obligations)" % _fmt_state(pre))
    flags = FLAGSETS[flagname]
    path_calls = _path_to(parent, pre, flags)
    paths = [path_calls]
    for (s, j, label) in alts.get(pre, []):  # other last hops into `pre`, each after a shortest path to its source
        alt = _path_to(parent, s, flags) + [{"flags": flags, "crash_point": (None if j is None else int(j)), "death": getattr(j, "death", "kill"), "at": label}]
        if alt not in paths:
            paths.append(alt)
    r = _ob_crash(pre, flagname, steps, "save_parameters", paths)
    r["statement"] = "inductive step on reachable state (reached by crash points %s): %s" % ([c["crash_point"] for c in path_calls], r["statement"])
    return r


def _ob_frame_unsafe(steps):
    """safely=False is the caller's explicit opt-out of crash safety.  Its contract: only `name` is written, the
    siblings are not touched, and an uninterrupted call ends with fs[name]=complete(new)."""
    pre = (COMPLETE, COMPLETE, PARTIAL)
    pre_tok = _pre_tokens(pre)
    ref = abs_run(pre_tok, FLAGSETS["unsafe"], None, steps)
    if not ref["fs"].events:
        raise Undecided("no file-system event observed")
    snap, new = ref["snap"], ref["new"]
    ok, failed, _ = check_state(snap, _valid_tokens(pre_tok, new), new, goal="name_is_new")
    if failed or ref["outcome"] != "returned":
        _refute("safely=False: an uninterrupted call ends in %s" % _snap_json(snap), pre,
                [{"flags": FLAGSETS["unsafe"], "crash_point": None, "at": "no crash"}], steps, "save_parameters", snap,
                failed or ["returns normally"], goal="name_is_new")
    untouched = all(snap[r] == (pre_tok[r][0], (pre_tok[r][1],)) for r in ("old", "new"))
    return {"backend": "enum+z3", "cases": 1, "siblings_untouched": untouched,
            "statement": "safely=False (opt-out; crash safety not claimed): an uninterrupted call returns with fs[name]=complete(new); "
                         "siblings untouched: %s; exit %s" % (untouched, _snap_json(snap))}


# ---- call-site scan ------------------------------------------------------------------------------
def scan_callsites():
    import torchtree
    root = os.path.dirname(os.path.abspath(torchtree.__file__))
    defs, calls = [], []
    for dirpath, _, files in os.walk(root):
        for fname in files:
            if not fname.endswith(".py"):
                continue
            p = os.path.join(dirpath, fname)
            try:
                tree = ast.parse(open(p, encoding="utf-8").read())
            except SyntaxError as e:
                raise Undecided("cannot parse %s: %s" % (p, e))
            stack = []

            def visit(node):
                is_fn = isinstance(node, (ast.FunctionDef, ast.AsyncFunctionDef))
                if is_fn:
                    stack.append(node)
                    if node.name in ("save_full_state", FN):
                        defs.append((os.path.relpath(p, root), node))
                if isinstance(node, ast.Call):
                    f = node.func
                    nm = f.id if isinstance(f, ast.Name) else f.attr if isinstance(f, ast.Attribute) else None
                    if nm in (FN, "save_full_state"):
                        calls.append((os.path.relpath(p, root), node, nm, stack[-1] if stack else None))
                for ch in ast.iter_child_nodes(node):
                    visit(ch)
                if is_fn:
                    stack.pop()
            visit(tree)
    return defs, calls


def _ob_callsites():
    defs, calls = scan_callsites()
    sp_calls = [c for c in calls if c[2] == FN]
    if not sp_calls:
        raise Undecided("no call site of save_parameters found in the package")
    report, uncovered = [], []
    for rel, node, nm, encl in calls:
        # bind the arguments against every definition of the callee found in the package
        cand = [d for _, d in defs if d.name == nm]
        flags = {}
        bound = False
        for d in cand:
            names = [a.arg for a in d.args.args]
            if names and names[0] == "self" and isinstance(node.func, ast.Attribute):
                names = names[1:]
            if len(node.args) > len(names) or any(k.arg not in names for k in node.keywords if k.arg):
                continue
            b = dict(zip(names, node.args))
            b.update({k.arg: k.value for k in node.keywords if k.arg})
            flags = {k: b[k] for k in ("safely", "overwrite") if k in b}
            fname_expr = b.get("file_name", b.get("checkpoint"))
            bound = True
            break
        if not bound or any(k.arg is None for k in node.keywords) or any(isinstance(a, ast.Starred) for a in node.args):
            uncovered.append("%s:%d cannot bind the arguments of %s" % (rel, node.lineno, nm))
            continue
        desc = {}
        for k, e in flags.items():
            if isinstance(e, ast.Constant):
                desc[k] = e.value
            elif (isinstance(e, ast.Name) and encl is not None and encl.name == "save_full_state"
                  and e.id in [a.arg for a in encl.args.args]):
                args = encl.args.args
                dflt = dict(zip([a.arg for a in args][len(args) - len(encl.args.defaults):], encl.args.defaults))
                dv = dflt.get(e.id)
                desc[k] = "forwarded(default=%s)" % (dv.value if isinstance(dv, ast.Constant) else "?")
            else:
                desc[k] = "expr(%s)" % ast.unparse(e)
        where = "%s:%d %s(%s)" % (rel, node.lineno, nm, ast.unparse(fname_expr) if fname_expr is not None else "self.checkpoint")
        safely, overwrite = desc.get("safely", True), desc.get("overwrite", False)
        ok_s = safely is True or safely == "forwarded(default=True)"
        ok_o = overwrite in (False, True) or overwrite == "forwarded(default=False)"
        cls = "default" if (ok_s and overwrite in (False, "forwarded(default=False)")) else "overwrite" if (ok_s and overwrite is True) else "uncovered"
        report.append("%s -> %s" % (where, cls if not desc else "%s %s" % (cls, desc)))
        if not (ok_s and ok_o):
            uncovered.append(where + " passes %s" % desc)
    if uncovered:
        raise Undecided("call sites pass flags outside the verified sets {default, overwrite=True}: " + "; ".join(uncovered))
    return {"backend": "enum", "cases": len(calls), "call_sites": report,
            "statement": "every call of save_parameters / save_full_state in the package passes safely=True and overwrite in "
                         "{False (default), True}; %d call sites: %s" % (len(calls), "; ".join(report))}


# ---- vacuity -------------------------------------------------------------------------------------
def _ob_vacuity_wrong_spec(steps):
    """must-fail twin of the postcondition: 'at every crash point fs[name]=complete(new)'. Crash point 0 (nothing
    has happened yet, name still holds v0) must refute it whatever the implementation."""
    pre_tok = _pre_tokens(GOOD)
    states, ref = crash_states(pre_tok, FLAGSETS["default"], steps)
    if len(states) < 2:
        raise RuntimeError("no crash points enumerated")
    refuted = []
    for j, label, snap, new in states:
        ok, failed, model = check_state(snap, _valid_tokens(pre_tok, new), new, goal="name_is_new")
        if not ok:
            refuted.append(j)
    if 0 not in refuted:
        raise RuntimeError("vacuity: the wrong specification 'name=complete(new) at every crash point' was NOT refuted at crash point 0")
    if len(refuted) == len(states):
        raise RuntimeError("vacuity: 'name=complete(new)' fails even at the exit state — the exit obligation cannot hold")
    return {"backend": "enum+z3", "cases": len(states), "crash_points": len(states),
            "statement": "must-fail twin refuted at crash points %s of %d (z3 sat: name holds v0, v0 != new is satisfiable)" % (refuted, len(states))}


_TWIN_DIRECT = '''
import json, os
def save_parameters(file_name, parameters, safely=True, overwrite=False):
    with open(file_name, 'w') as fp:
        json.dump(parameters, fp, indent=2)
'''

_TWIN_REMOVE_FIRST = '''
import json, os
def save_parameters(file_name, parameters, safely=True, overwrite=False):
    with open(file_name + '.new', 'w') as fp:
        json.dump(parameters, fp, indent=2)
    os.remove(file_name)
    os.rename(file_name + '.new', file_name)
'''

_TWIN_APPEND = '''
import json, os
def save_parameters(file_name, parameters, safely=True, overwrite=False):
    with open(file_name + '.new', 'a') as fp:
        json.dump(parameters, fp, indent=2)
    os.rename(file_name + '.new', file_name)
'''


def _with_twin(source, body):
    """run `body()` with _locate() answering a twin implementation compiled from `source` in a fresh module"""
    m = types.ModuleType("c18_twin")
    exec(compile(source, "<C18 must-fail twin>", "exec"), m.__dict__)
    sys.modules["c18_twin"] = m
    g = globals()
    saved = g["_locate"]
    g["_locate"] = lambda: (m.save_parameters, m)
    try:
        return body()
    finally:
        g["_locate"] = saved
        sys.modules.pop("c18_twin", None)


def _expect_refuted(body, what):
    try:
        body()
    except Refuted as e:
        return e
    raise RuntimeError("vacuity: the must-fail twin (%s) was NOT refuted" % what)


def _ob_vacuity_twins(steps):
    """must-fail twin implementations pushed through exactly the same obligation code"""
    out = []
    e = _with_twin(_TWIN_DIRECT, lambda: _expect_refuted(lambda: _ob_crash(GOOD, "default", steps), "direct write to name"))
    if "Inv2" not in e.witness["violated"] or not e.confirmed:
        raise RuntimeError("vacuity: direct-write twin refuted for the wrong reason / replay not confirmed: %s" % e.witness)
    out.append("direct-write: %s at point %s, replay confirmed" % (e.witness["violated"], e.witness["calls"][-1]["crash_point"]))
    e = _with_twin(_TWIN_REMOVE_FIRST, lambda: _expect_refuted(lambda: _ob_step((ABSENT, ABSENT, COMPLETE), "default", steps), "remove name before rename, second call"))
    out.append("remove-then-rename (fault sequence): %s after crash points %s, replay confirmed=%s"
               % (e.witness["violated"], [c["crash_point"] for c in e.witness["calls"]], e.confirmed))
    if len(e.witness["calls"]) < 2:
        raise RuntimeError("vacuity: fault-sequence twin was not refuted by a sequence of >= 2 calls")
    e = _with_twin(_TWIN_APPEND, lambda: _expect_refuted(lambda: _ob_crash((COMPLETE, ABSENT, COMPLETE), "default", steps), "append to .new"))
    if "Inv2" not in e.witness["violated"] or e.witness["resulting_state"]["name"][0] != MIXED:
        raise RuntimeError("vacuity: append twin must leave a mixture under the checkpoint name: %s" % e.witness)
    out.append("append-to-.new: %s, replay confirmed=%s" % (e.witness["violated"], e.confirmed))
    return {"backend": "enum+z3", "cases": 3, "statement": "must-fail twin implementations refuted: " + "; ".join(out)}


def _ob_vacuity_swapped(steps):
    """the two renames of the real source swapped in a compiled copy (inspect.getsource); only applicable while the
    implementation has that shape"""
    fn, mod = _locate()
    try:
        src = inspect.getsource(fn)
    except (OSError, TypeError) as e:
        raise Undecided("source of save_parameters unavailable: %s" % e)
    import __future__
    import textwrap
    try:
        tree = ast.parse(textwrap.dedent(src))
    except SyntaxError as e:
        raise Undecided("cannot parse the source of save_parameters: %s" % e)

    def is_rename(st):
        return (isinstance(st, ast.Expr) and isinstance(st.value, ast.Call) and isinstance(st.value.func, ast.Attribute)
                and st.value.func.attr in ("rename", "replace"))

    pair = None
    for node in ast.walk(tree):
        for field in ("body", "orelse", "finalbody"):
            stmts = getattr(node, field, None)
            if not isinstance(stmts, list):
                continue
            for i in range(len(stmts) - 1):
                if pair is None and is_rename(stmts[i]) and is_rename(stmts[i + 1]):
                    pair = (stmts[i].lineno, stmts[i + 1].lineno)
                    stmts[i], stmts[i + 1] = stmts[i + 1], stmts[i]
    if pair is None:
        return {"backend": "enum", "cases": 0, "trivial": True,
                "statement": "not applicable: the implementation has no two consecutive rename statements; covered by C18.vacuity.twins"}
    a, b = pair
    m = types.ModuleType("c18_twin")
    m.__dict__.update({k: v for k, v in vars(mod).items() if not k.startswith("__")})
    try:
        exec(compile(ast.fix_missing_locations(tree), "<C18 swapped renames>", "exec",
                     flags=__future__.annotations.compiler_flag, dont_inherit=True), m.__dict__)
    except (SyntaxError, ValueError, TypeError) as e:
        raise Undecided("cannot compile the swapped copy: %s" % e)
    try:  # the twin is informative only if the unswapped function passes the obligations the twin must fail
        _ob_exit(GOOD, "default", steps)
        _ob_crash(GOOD, "default", steps)
    except Refuted:
        return {"backend": "enum", "cases": 0, "trivial": True,
                "statement": "not applicable: the real function is itself refuted on C18.a from the good state; covered by C18.vacuity.twins"}
    g = globals()
    saved = g["_locate"]
    g["_locate"] = lambda: (m.__dict__[FN], m)
    try:
        hits = []
        for what, body in (("a.exit", lambda: _ob_exit(GOOD, "default", steps)), ("a.crash", lambda: _ob_crash(GOOD, "default", steps))):
            try:
                body()
            except Refuted as e:
                hits.append("%s refuted (%s, replay confirmed=%s)" % (what, ",".join(e.witness["violated"]), e.confirmed))
    finally:
        g["_locate"] = saved
    if not hits:
        raise RuntimeError("vacuity: swapping the two renames of the real source was NOT detected")
    return {"backend": "enum+z3", "cases": 2, "statement": "swapped rename statements (lines %d,%d of the function source): %s" % (a, b, "; ".join(hits))}


# ---- cross-check abstract vs real ----------------------------------------------------------------
def _compare(pre, calls, steps, site, abs_snap, abs_events):
    res = real_sequence({"site": site, "steps": steps, "pre": {r: [k] for r, k in zip(ROLES, pre)}, "calls": calls})
    real = res["states"][-1]
    for r in ROLES:
        # the ghost image over-approximates an open WITHOUT truncation (contents are opaque: the old content may be longer than the new one, so
        # a tail of it may survive); the real twin, whose texts have concrete lengths, may then hold a clean file
        tail_abstraction = abs_snap[r][0] == MIXED and any(x == "<tail of>" for x in abs_snap[r][1]) and real[r][0] != ABSENT
        if real[r][0] != abs_snap[r][0] and not (real[r][0] in (MIXED, PARTIAL) and abs_snap[r][0] == MIXED) and not tail_abstraction:
            raise RuntimeError("cross-check: ghost image and real directory disagree for pre=%s calls=%s: ghost %s real %s"
                               % (_fmt_state(pre), calls, _snap_json(abs_snap), real))
    if abs_events is not None and [list(e) for e in abs_events] != res["events"][-1]:
        raise RuntimeError("cross-check: event logs differ for pre=%s calls=%s: ghost %s real %s" % (_fmt_state(pre), calls, abs_events, res["events"][-1]))
    return real


def _ob_crosscheck(flagname, steps, pres, site="save_parameters"):
    flags = FLAGSETS[flagname]
    n = 0
    for pre in pres:
        pre_tok = _pre_tokens(pre)
        states, ref = crash_states(pre_tok, flags, steps, site)
        nev = len(ref["fs"].events)
        for j, label, snap, new in states:
            real = _compare(pre, [{"flags": flags, "crash_point": (int(j) if j < nev else None), "death": getattr(j, "death", "kill")}], steps, site, snap,
                            ref["fs"].events[:j] if getattr(j, "death", "kill") == "kill" else None)   # the unwinding adds events of its own
            # labels of complete files must agree too (which generation survived)
            for r in ROLES:
                if snap[r][0] == COMPLETE:
                    lab = fsmodel.label_of(snap[r][1][0])
                    want = "v1" if (lab == "v_new" or lab.startswith("state+")) else lab
                    if real[r][1] != want:
                        raise RuntimeError("cross-check: contents differ at %s: ghost %s real %s" % (r, lab, real[r]))
            n += 1
    return {"backend": "concrete", "cases": n,
            "statement": "ghost image == real temporary directory (file kinds, surviving generation, event log) for %d (pre-state, crash point) pairs, site=%s flags=%s"
                         % (n, site, flagname)}


def _ob_crosscheck_seq(flagname, steps, maxlen):
    """all crash sequences up to maxlen from the good state: abstract successor == real directory"""
    flags = FLAGSETS[flagname]
    n = 0
    frontier = [(GOOD, [])]
    cache = {}
    for depth in range(maxlen):
        nxt = []
        for s, calls in frontier:
            if s not in cache:
                pre_tok = _pre_tokens(s)
                states, ref = crash_states(pre_tok, flags, steps)
                cache[s] = [(j if j < len(ref["fs"].events) else None, _abstract(snap, _valid_tokens(pre_tok, new), new)) for j, _, snap, new in states]
            for j, t in cache[s]:
                c2 = calls + [{"flags": flags, "crash_point": (None if j is None else int(j)), "death": getattr(j, "death", "kill")}]
                res = real_sequence({"site": "save_parameters", "steps": steps, "pre": {r: [k] for r, k in zip(ROLES, GOOD)}, "calls": c2})
                real = tuple(res["states"][-1][r][0] for r in ROLES)
                # 'mixed' (closed, but not one good checkpoint) and 'partial' are the same abstract fact: not a usable checkpoint
                unusable = lambda k: PARTIAL if k == MIXED else k   # noqa: E731
                if tuple(map(unusable, real)) != tuple(map(unusable, t)):
                    raise RuntimeError("cross-check: after crash sequence %s ghost=%s real=%s" % ([c["crash_point"] for c in c2], t, real))
                n += 1
                if _abs_inv(t):
                    nxt.append((t, c2))
        frontier = nxt
    return {"backend": "concrete", "cases": n,
            "statement": "every sequence of <= %d crashed/completed calls from the good state (%d sequences): abstract state == real directory" % (maxlen, n)}


# ---- assembly ------------------------------------------------------------------------------------
def _undecided_ob(name, reason):
    def fn():
        raise Undecided(reason)
    return Ob(name, "U", fn, clause="locate", funcs=FUNCS, timeout=60)


def obligations(tier, seed):
    steps = 2 if tier == "quick" else 5
    obs = []

    def add(name, fn, clause, tag="U", timeout=300):
        obs.append(Ob(name, tag, fn, clause=clause, funcs=FUNCS, timeout=timeout))

    add("C18.callsites.flags", _ob_callsites, "flags passed by the call sites")

    sib = (ABSENT, COMPLETE, PARTIAL)
    for o in sib:
        for n in sib:
            pre = (COMPLETE, o, n)
            tagname = "pre=%s,flags=default" % _fmt_state(pre)
            add("C18.a.crash[%s]" % tagname, (lambda pre=pre: _ob_crash(pre, "default", steps)), "(a) main clause: crash states")
            add("C18.a.exit[%s]" % tagname, (lambda pre=pre: _ob_exit(pre, "default", steps)), "(a) main clause: exit state")
    for site in ("MCMC.save_full_state", "Optimizer.save_full_state"):
        add("C18.a.site.crash[site=%s,pre=%s]" % (site, _fmt_state(GOOD)), (lambda site=site: _ob_crash(GOOD, "default", steps, site)),
            "(a) main clause through the real call site")
        add("C18.a.site.exit[site=%s,pre=%s]" % (site, _fmt_state(GOOD)), (lambda site=site: _ob_exit(GOOD, "default", steps, site)),
            "(a) main clause through the real call site")

    # other checkpoint names (the temporary / backup names are derived from it): no extension, another extension, dots in the stem
    for base in ("checkpoint", "run-1.ckpt", "my.run.v2.json"):
        def named(f, base=base):
            def g():
                with _named(base):
                    return f()
            return g
        add("C18.a.crash[name=%s,pre=%s]" % (base, _fmt_state(GOOD)), named(lambda: _ob_crash(GOOD, "default", steps)), "(a) main clause: crash states, other file names")
        add("C18.a.exit[name=%s,pre=%s]" % (base, _fmt_state(GOOD)), named(lambda: _ob_exit(GOOD, "default", steps)), "(a) main clause: exit state, other file names")
        add("C18.a.crash[name=%s,pre=%s]" % (base, _fmt_state((COMPLETE, ABSENT, PARTIAL))), named(lambda: _ob_crash((COMPLETE, ABSENT, PARTIAL), "default", steps)),
            "(a) main clause: crash states, other file names")
        add("C18.a.site.crash[site=Optimizer.save_full_state,name=%s]" % base, named(lambda: _ob_crash(GOOD, "default", steps, "Optimizer.save_full_state")),
            "(a) main clause through the real call site, other file names")
    # (b): the reachable set is computed here (milliseconds) so that every reachable state gets a named obligation
    try:
        parent, order, _ = _reach("default", steps)
    except Undecided as e:
        obs.append(_undecided_ob("C18.b.reach[flags=default]", str(e)))
        order = []
    else:
        add("C18.b.reach[flags=default]", (lambda: _ob_reach("default", steps)), "(b) fault sequences: reachable set")
    for s in order:
        if _abs_inv(s):
            add("C18.b.step[pre=%s,flags=default]" % _fmt_state(s), (lambda s=s: _ob_step(s, "default", steps)),
                "(b) fault sequences: Inv1 & Inv2 inductive over crash-then-call-again")

    add("C18.api.overwrite.crash[pre=%s]" % _fmt_state(GOOD), (lambda: _ob_crash(GOOD, "overwrite", steps)),
        "public flag overwrite=True on an existing file: crash states")
    add("C18.api.overwrite.exit[pre=%s]" % _fmt_state(GOOD), (lambda: _ob_exit(GOOD, "overwrite", steps)),
        "public flag overwrite=True on an existing file: exit state")
    add("C18.api.unsafe.frame", (lambda: _ob_frame_unsafe(steps)), "public flag safely=False (opt-out): frame and exit state only")

    add("C18.vacuity.wrong_spec", (lambda: _ob_vacuity_wrong_spec(steps)), "guard: must-fail twin of the postcondition")
    add("C18.vacuity.twins", (lambda: _ob_vacuity_twins(steps)), "guard: must-fail twin implementations")
    add("C18.vacuity.swapped_renames", (lambda: _ob_vacuity_swapped(steps)), "guard: renames swapped in a copy of the real source")

    a_pres = [(COMPLETE, o, n) for o in sib for n in sib]
    add("C18.guard.crosscheck[flags=default]", (lambda: _ob_crosscheck("default", steps, a_pres)), "guard: ghost image vs real directory", tag="B")
    add("C18.guard.crosscheck[site=MCMC.save_full_state]", (lambda: _ob_crosscheck("default", steps, [GOOD], "MCMC.save_full_state")),
        "guard: ghost image vs real directory", tag="B")
    if tier != "quick":
        add("C18.guard.crosscheck[flags=overwrite]", (lambda: _ob_crosscheck("overwrite", steps, a_pres)), "guard: ghost image vs real directory", tag="B")
        add("C18.guard.crosscheck.seq[len<=3,flags=default]", (lambda: _ob_crosscheck_seq("default", steps, 3)),
            "guard: ghost image vs real directory over crash sequences", tag="B", timeout=1200)
    return obs
