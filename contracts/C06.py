"""C06 — node-height parameterisations yield a valid time tree and are invertible (DESIGN 4, C06).

Contracts on the REAL ReparameterizedTimeTreeModel / TimeTreeModel / GeneralNodeHeightTransform /
DifferenceNodeHeightTransform objects (built through the real parse_tree):
  requires  ratios in (0,1) (parametrised u/(1+u), u>0), root height above the oldest tip, increments > 0
  ensures   tips at their sampling times; bounds[c] <= h[c] <= h[parent(c)]; parent >= every child;
            branch_lengths()[c] ≡ h[parent(c)] - h[c]; inv(f(x)) ≡ x for inputs of rank 1 and 2;
            to()/cpu() keep the parameterisation (type of the transform) and do not raise.
"""
import ast
import itertools
import random

import torch

from specs import treemodels, trees
from vt import nf
from vt.cond import Undecided
from vt.runner import Ob, Refuted
from vt.scenario import el, scenario_ob

FUNCS = [
    "torchtree.evolution.tree_height_transform:GeneralNodeHeightTransform.__init__",
    "torchtree.evolution.tree_height_transform:GeneralNodeHeightTransform.sort_indices",
    "torchtree.evolution.tree_height_transform:GeneralNodeHeightTransform.update_bounds",
    "torchtree.evolution.tree_height_transform:GeneralNodeHeightTransform._call",
    "torchtree.evolution.tree_height_transform:GeneralNodeHeightTransform._inverse",
    "torchtree.evolution.tree_height_transform:DifferenceNodeHeightTransform._call",
    "torchtree.evolution.tree_height_transform:DifferenceNodeHeightTransform._inverse",
    "torchtree.evolution.tree_model:TimeTreeModel.update_leaf_heights",
    "torchtree.evolution.tree_model:TimeTreeModel.update_traversals",
    "torchtree.evolution.tree_model:TimeTreeModel.node_heights",
    "torchtree.evolution.tree_model:TimeTreeModel.branch_lengths",
    "torchtree.evolution.tree_model:ReparameterizedTimeTreeModel.__init__",
    "torchtree.evolution.tree_model:ReparameterizedTimeTreeModel.update_node_heights",
    "torchtree.evolution.tree_model:ReparameterizedTimeTreeModel.node_heights",
    "torchtree.evolution.tree_model:ReparameterizedTimeTreeModel.cpu",
    "torchtree.evolution.tree_model:ReparameterizedTimeTreeModel.cuda",
    "torchtree.evolution.tree_model:initialize_dates_from_taxa",
    "torchtree.core.parameter:TransformedParameter.to",
    "torchtree.core.parameter:TransformedParameter.cpu",
]

META = {
    "level": "other",
    "explanation": "Symbolic in all parameter values (ratios, root height, increments, heights); enumerated in topology "
                   "(every rooted labelled binary topology up to 6 taxa in the thorough tier - the property's own exhaustive "
                   "bound - a covering subset in the quick tier), sampling-date pattern (isochronous, heterochronous, ties, "
                   "calendar dates) and batch rank. Sign claims become syntactic through the surjective domain parametrisation "
                   "ratio=u/(1+u), root=oldest tip+s. 'random topologies above 6 taxa' are not covered.",
    "bound": "all rooted labelled binary topologies T<=5 quick (sampled at T=6), T<=6 thorough; 4 date patterns; batch ranks 1,2",
    "trusted_base": [
        "dendropy traversal (checked separately by C01.postorder, bounded)",
        "real arithmetic; sampling times stored by the code in the default float dtype",
        "smooth-max (k>0) variant of the increment transform: only inverse∘forward is proved, validity needs log-sum-exp >= max (not in the rewrite theory)",
    ],
    "assumptions": ["machine arithmetic treated as mathematical (reals)"],
}

MANIFEST = {
    "category": "other",
    "text": "The real transforms and tree models are executed on symbolic ratios / root height / increments for every enumerated "
            "topology and date pattern; validity (tips at sampling times, bounds <= height <= parent height, branch = parent - child), "
            "inverse∘forward ≡ id for unbatched and batched inputs, and the device/dtype frame condition are proved for all real "
            "values by exact normal form (+ z3 for order-dependent paths of the increment transform).",
    "note": "Shape-bounded (topologies <= 6 taxa: the property's exhaustive part; random larger trees not covered); reals instead of doubles; dendropy trusted via C01.postorder.",
    "technique": "sidecar contracts + symbolic execution of the real transforms (__torch_function__) + exact normal form / z3; heap check for the to()/cpu() frame",
}

NAMES = ["A", "B", "C", "D", "E", "F", "G"]


def _setup(tree_s, pattern):
    tree = ast.literal_eval(tree_s)
    T = tree_s.count(",") + 1
    names = NAMES[:T]
    dates = treemodels.DATE_PATTERNS[pattern](T)
    ages = treemodels.ages_of(dates)
    return tree, T, names, dates, ages


def scn_ratio(tree_s, pattern, batch):
    tree, T, names, dates, ages = _setup(tree_s, pattern)
    batch = tuple(batch)

    def scn(mk):
        ratios = mk.unit("r", batch + (T - 2,)) if T > 2 else None
        oldest = max(ages)
        root = mk.above("root", batch + (1,), oldest)
        x = torch.cat((ratios, root), -1) if ratios is not None else root
        tm, newick = treemodels.build_reparam(tree, names, dates, x, "ratios")
        nodes, rootidx = treemodels.oracle_view(newick, names)
        b = treemodels.bounds_of(nodes, rootidx, ages, T)
        nh = tm.node_heights
        bl = tm.branch_lengths()
        cl = []
        if tuple(nh.shape) != batch + (2 * T - 1,):
            return [("true", "node_heights_shape", False, str(tuple(nh.shape)))]
        tips_code, tips_spec, lo, hi, blc, bls = [], [], [], [], [], []
        for bix in itertools.product(*[range(s) for s in batch]):
            for i in range(T):
                tips_code.append(el(nh, bix + (i,)))
                tips_spec.append(ages[i])
            for c in range(2 * T - 1):
                p = nodes[c]["parent"]
                if p is None:
                    continue
                hc, hp = el(nh, bix + (c,)), el(nh, bix + (p,))
                hi.append(hp - hc)
                if c >= T:
                    lo.append(hc - b[c])
                blc.append(el(bl, bix + (c,)))
                bls.append(hp - hc)
        cl.append(("eq", "tips_at_sampling_times", tips_code, tips_spec))
        cl.append(("ge0", "parent_at_least_as_old_as_child", hi))
        if lo:
            cl.append(("ge0", "height_above_oldest_descendant_tip", lo))
        cl.append(("eq", "branch_is_parent_minus_child", blc, bls))
        # inverse
        heights = nh[..., T:]
        back = tm.transform.inv(heights)
        cl.append(("true", "inverse_shape", tuple(back.shape) == tuple(x.shape), "%s vs %s" % (tuple(back.shape), tuple(x.shape))))
        if tuple(back.shape) == tuple(x.shape):
            cl.append(("eq", "inverse_of_forward_is_identity", back, x))
        return cl
    return scn


def scn_diff(tree_s, pattern, batch, k):
    tree, T, names, dates, ages = _setup(tree_s, pattern)
    batch = tuple(batch)

    def scn(mk):
        x = mk.real("d", batch + (T - 1,), lo=0)
        tm, newick = treemodels.build_reparam(tree, names, dates, x, "shifts")
        if k > 0:
            from torchtree.evolution.tree_height_transform import DifferenceNodeHeightTransform
            tm.transform = DifferenceNodeHeightTransform(tm, k)
        nodes, rootidx = treemodels.oracle_view(newick, names)
        nh = tm.node_heights
        bl = tm.branch_lengths()
        cl = []
        tips_code, tips_spec, hi, blc, bls, incr_c, incr_s = [], [], [], [], [], [], []
        for bix in itertools.product(*[range(s) for s in batch]):
            for i in range(T):
                tips_code.append(el(nh, bix + (i,)))
                tips_spec.append(ages[i])
            for c in range(2 * T - 1):
                p = nodes[c]["parent"]
                if p is not None:
                    hc, hp = el(nh, bix + (c,)), el(nh, bix + (p,))
                    hi.append(hp - hc)
                    blc.append(el(bl, bix + (c,)))
                    bls.append(hp - hc)
        cl.append(("eq", "tips_at_sampling_times", tips_code, tips_spec))
        if k == 0:
            cl.append(("ge0", "parent_at_least_as_old_as_child", hi))
        cl.append(("eq", "branch_is_parent_minus_child", blc, bls))
        back = tm.transform.inv(nh[..., T:])
        cl.append(("true", "inverse_shape", tuple(back.shape) == tuple(x.shape), "%s vs %s" % (tuple(back.shape), tuple(x.shape))))
        if tuple(back.shape) == tuple(x.shape):
            cl.append(("eq", "inverse_of_forward_is_identity", back, x))
        return cl
    return scn


def scn_timetree(tree_s, pattern, batch):
    tree, T, names, dates, ages = _setup(tree_s, pattern)
    batch = tuple(batch)

    def scn(mk):
        hs = mk.real("h", batch + (T - 1,), lo=0)
        tm, newick = treemodels.build_timetree(tree, names, dates, hs)
        nodes, rootidx = treemodels.oracle_view(newick, names)
        nh = tm.node_heights
        bl = tm.branch_lengths()
        tips_code, tips_spec, blc, bls = [], [], [], []
        for bix in itertools.product(*[range(s) for s in batch]):
            for i in range(T):
                tips_code.append(el(nh, bix + (i,)))
                tips_spec.append(ages[i])
            for c in range(2 * T - 1):
                p = nodes[c]["parent"]
                if p is not None:
                    blc.append(el(bl, bix + (c,)))
                    hc = ages[c] if c < T else el(hs, bix + (c - T,))
                    bls.append(el(hs, bix + (p - T,)) - hc)
        return [("eq", "tips_at_sampling_times", tips_code, tips_spec),
                ("eq", "branch_is_parent_minus_child", blc, bls),
                ("true", "branch_count", bl.shape[-1] == 2 * T - 2)]
    return scn


# ----------------------------------------------------------------------------------------------
# unbounded in the number of taxa: cut of the pre-order loop of the ratio transform (DESIGN A.5)


def scn_ratio_cut(pair_index):
    """One GENERIC iteration of `for parent_id, id_ in self._forward_indices` of the real GeneralNodeHeightTransform._call
    (loop body compiled verbatim from the current source) on a pre-state satisfying the invariant
    "bounds[id] <= bounds[parent] <= heights[parent]" with symbolic bounds, ratio and parent height:
        heights'[id] ≡ bounds[id] + x[id]·(heights[parent] − bounds[id]);  bounds[id] <= heights'[id] <= heights[parent];
        every other entry of heights is unchanged (frame).
    With preorder_ok (parent before child) this is the inductive step of validity for trees of ANY size."""
    def scn(mk):
        from torchtree.evolution.tree_height_transform import GeneralNodeHeightTransform
        from vt import loopcut
        tree = ((0, (1, 2)), (3, 4))
        T = 5
        tm, _ = treemodels.build_reparam(tree, NAMES[:T], [0.0] * T, torch.tensor([0.5, 0.5, 0.5, 3.0], dtype=torch.float64), "ratios")
        tr = tm.transform
        c = loopcut.cut(GeneralNodeHeightTransform._call, 0)
        pairs = [tuple(int(v) for v in p) for p in tr._forward_indices]
        parent_id, id_ = pairs[pair_index % len(pairs)]
        n = T - 1
        # symbolic pre-state: bounds (per internal node) with bounds[id] <= bounds[parent]; heights[parent] >= bounds[parent]
        b_id = mk.real("b_id", (), lo=0)
        gap = mk.real("gap", (), lo=0, lo_incl=True)       # bounds[parent] - bounds[id] >= 0  (C06.bounds)
        s = mk.real("s", (), lo=0)                           # heights[parent] - bounds[parent] > 0 ... >= 0 suffices
        ratio = mk.unit("ratio", ())
        others = mk.real("other", (n,))
        bounds_int = mk.real("b_other", (n,), lo=0)
        import numpy as np
        from vt.symtorch import ST
        if mk.symbolic:
            bi = ST(bounds_int.a.copy()); bi.a[id_] = b_id.a[()]; bi.a[parent_id] = (b_id + gap).a[()]
            x = ST(others.a.copy()); x.a[id_] = ratio.a[()]; x.a[parent_id] = (b_id + gap + s).a[()]
            full_bounds = ST(np.concatenate([np.array([nf.ZERO] * T, dtype=object), bi.a]))
        else:
            bi = bounds_int.clone(); bi[id_] = b_id; bi[parent_id] = b_id + gap
            x = others.clone(); x[id_] = ratio; x[parent_id] = b_id + gap + s
            full_bounds = torch.cat((torch.zeros(T, dtype=torch.float64), bi))
        saved = tr._bounds
        tr._bounds = full_bounds
        try:
            state = c.prefix(tr, x)          # heights = x.clone(); bounds = self._bounds[taxa_count:]
            # temporaries by ROLE: "the heights" = the local the function returns; loop variables = the header's targets (parent, child)
            ret0 = c.suffix(state)
            HN = loopcut.local_by_role(state, lambda v: v is ret0, "the local holding the heights (the one the function returns)", exclude=c.params)
            if len(c.target_names) != 2:
                raise Undecided("loop target is no longer a (parent, child) pair: %s" % c.header)
            h0 = state[HN]
            h0_copy = h0.clone() if not mk.symbolic else ST(h0.a.copy())
            state.update(dict(zip(c.target_names, (parent_id, id_))))
            tag, st2 = c.body(state)
        finally:
            tr._bounds = saved
        h1 = st2[HN]
        cl = [("true", "loop_shape", c.kind == "for" and tag == "next", c.header)]
        hp = el(h0_copy, (parent_id,))
        new = el(h1, (id_,))
        cl.append(("eq", "defining_equation", [new], [el(bi, (id_,)) + el(x, (id_,)) * (hp - el(bi, (id_,)))]))
        cl.append(("ge0", "height_at_least_bound", [new - el(bi, (id_,))]))
        cl.append(("ge0", "parent_at_least_as_old", [hp - new]))
        cl.append(("eq", "frame_other_heights_unchanged", [el(h1, (m,)) for m in range(n) if m != id_], [el(h0_copy, (m,)) for m in range(n) if m != id_]))
        return cl
    return scn


# ----------------------------------------------------------------------------------------------
# frame: moving between devices / dtypes keeps the parameterisation


def ob_frame(kind, op):
    def body():
        tree = ((0, 1), (2, 3))
        T = 4
        names = NAMES[:T]
        dates = [0.0, 1.0, 0.0, 2.0]
        x = torch.tensor([0.5, 0.25, 3.0]) if kind == "ratios" else torch.tensor([0.5, 0.7, 0.3])
        tm, newick = treemodels.build_reparam(tree, names, dates, x, kind)
        before_type = type(tm.transform).__name__
        before = tm.node_heights.clone()
        try:
            if op == "cpu":
                tm.cpu()
            elif op == "to_float64":
                tm.to(torch.float64)
            elif op == "to_cpu_device":
                tm.to(torch.device("cpu"))
        except Exception as e:
            raise Refuted("tree_model.%s raised %s: %s" % (op, type(e).__name__, e),
                          witness={"kind": kind, "op": op}, replay={"kind": "custom", "contract": "C06", "func": "replay_frame", "args": {"kind": kind, "op": op}}, confirmed=True)
        tm.heights_need_update = True
        tm.branch_lengths_need_update = True
        after_type = type(tm.transform).__name__
        after = tm.node_heights
        if after_type != before_type or not torch.allclose(before.double(), after.double()):
            raise Refuted("after %s the parameterisation changed: transform %s -> %s, heights %s -> %s" % (op, before_type, after_type, before.tolist(), after.tolist()),
                          witness={"kind": kind, "op": op, "before": before_type, "after": after_type},
                          replay={"kind": "custom", "contract": "C06", "func": "replay_frame", "args": {"kind": kind, "op": op}}, confirmed=True)
        return {"backend": "heap", "statement": "%s tree: %s keeps transform type %s and node heights" % (kind, op, before_type)}
    return Ob("C06.frame[%s,%s]" % (kind, op), "U", body, clause="device/dtype move keeps the parameterisation", funcs=FUNCS)


def ob_frame_transformed(op):
    """a time tree whose ratios/root height are TransformedParameters (the configuration the CLI emits)"""
    def body():
        from torchtree.core.parameter import Parameter, TransformedParameter
        from torchtree import CatParameter
        from torchtree.evolution.tree_model import ReparameterizedTimeTreeModel, initialize_dates_from_taxa, parse_tree
        tree = ((0, 1), (2, 3))
        T = 4
        names = NAMES[:T]
        taxa = treemodels.make_taxa(names, [0.0, 1.0, 0.0, 2.0])
        t = parse_tree(taxa, {"newick": treemodels.newick_of(tree, names)})
        initialize_dates_from_taxa(t, taxa)
        ratios = TransformedParameter("ratios", Parameter("ratios.unres", torch.tensor([0.1, -0.2])), torch.distributions.SigmoidTransform())
        root = TransformedParameter("root", Parameter("root.unres", torch.tensor([1.5])), torch.distributions.AffineTransform(2.0, 1.0))
        tm = ReparameterizedTimeTreeModel("tree", t, taxa, CatParameter(None, [ratios, root], dim=-1))
        before = tm.node_heights.clone()
        try:
            if op == "cpu":
                tm.cpu()
            else:
                tm.to(torch.float64)
        except Exception as e:
            raise Refuted("tree_model.%s raised %s: %s (ratios/root are transformed parameters)" % (op, type(e).__name__, e),
                          witness={"op": op}, replay={"kind": "custom", "contract": "C06", "func": "replay_frame_transformed", "args": {"op": op}}, confirmed=True)
        tm.heights_need_update = True
        if not torch.allclose(before.double(), tm.node_heights.double()):
            raise Refuted("heights changed after %s" % op, witness={"op": op}, confirmed=True)
        return {"backend": "heap", "statement": "transformed-parameter tree: %s does not raise and keeps heights" % op}
    return Ob("C06.frame.transformed[%s]" % op, "U", body, clause="device/dtype move keeps the parameterisation", funcs=FUNCS)


def ob_dtype(kind, date_kind):
    """dtype of the inputs: sampling dates written as Python ints (years, integer ages) or floats, parameters in float64: node heights,
    branch lengths and the inverse are float64 values equal (1e-12) to the defining recursion evaluated in Python floats — nothing is
    truncated to the dtype of the dates"""
    def body():
        tree = ((0, 1), ((2, 3), 4))
        T = 5
        names = NAMES[:T]
        dates = {"int": [2010, 2012, 2011, 2015, 2013], "int_ages": [0, 3, 1, 0, 2], "float": [2010.0, 2012.5, 2011.25, 2015.0, 2013.75]}[date_kind]
        x = torch.tensor([0.37, 0.52, 0.81, 7.3], dtype=torch.float64) if kind == "ratios" else torch.tensor([0.31, 0.47, 0.23, 0.61], dtype=torch.float64)
        if kind == "heights":
            ages0 = treemodels.ages_of([float(d) for d in dates])
            tm, newick = treemodels.build_timetree(tree, names, dates, torch.tensor([max(ages0) + 0.37, max(ages0) + 1.21, max(ages0) + 2.43, max(ages0) + 3.07], dtype=torch.float64))
        else:
            tm, newick = treemodels.build_reparam(tree, names, dates, x.clone(), kind)
        nh = tm.node_heights
        bl = tm.branch_lengths()
        ages = treemodels.ages_of([float(d) for d in dates])
        nodes, root = treemodels.oracle_view(newick, names)
        problems = []
        if nh.dtype != torch.float64 or bl.dtype != torch.float64:
            problems.append("node heights are %s / branch lengths %s although the parameters are float64" % (nh.dtype, bl.dtype))
        for i in range(T):
            if abs(float(nh[i]) - ages[i]) > 1e-12:
                problems.append("tip %d at height %r, sampling time %r" % (i, float(nh[i]), ages[i]))
        for c in range(2 * T - 1):
            pnode = nodes[c]["parent"]
            if pnode is not None:
                want = float(nh[pnode]) - float(nh[c])
                if abs(float(bl[c]) - want) > 1e-12 or want < -1e-12:
                    problems.append("branch %d: length %r, parent minus child %r" % (c, float(bl[c]), want))
        if kind != "heights":
            # the defining recursion in Python floats
            bounds = treemodels.bounds_of(nodes, root, ages, T)
            xs = [float(v) for v in x]
            want_h = {}
            if kind == "ratios":
                def rec(i, parent_h):
                    if not nodes[i]["children"]:
                        return
                    j = i - T
                    h = xs[j] if parent_h is None else bounds[i] + xs[j] * (parent_h - bounds[i])
                    want_h[i] = h
                    for ch in nodes[i]["children"]:
                        rec(ch, h)
                rec(root, None)
            else:
                def rec2(i):
                    if not nodes[i]["children"]:
                        return ages[i]
                    h = max(rec2(ch) for ch in nodes[i]["children"]) + xs[i - T]
                    want_h[i] = h
                    return h
                rec2(root)
            for i, h in want_h.items():
                if abs(float(nh[i]) - h) > 1e-11 * max(1.0, abs(h)):
                    problems.append("internal node %d at height %r, defining recursion gives %r" % (i, float(nh[i]), h))
            back = tm.transform.inv(nh[..., T:])
            if back.dtype != torch.float64 or not torch.allclose(back, x, rtol=1e-11, atol=1e-12):
                problems.append("inverse of the heights is %s (%s), parameters %s" % (back.tolist(), back.dtype, x.tolist()))
        if problems:
            raise Refuted("%s tree, %s dates %s: %s" % (kind, date_kind, dates, "; ".join(problems[:3])), witness={"kind": kind, "dates": dates, "problems": problems[:6]},
                          replay={"kind": "custom", "contract": "C06", "func": "replay_dtype", "args": {"kind": kind, "date_kind": date_kind}}, confirmed=True)
        return {"backend": "heap", "cases": 1, "statement": "%s tree with %s dates: float64 heights / branch lengths / inverse equal the defining recursion to 1e-11" % (kind, date_kind)}
    return Ob("C06.dtype[%s,dates=%s]" % (kind, date_kind), "B", body, clause="heights are those of the defining recursion whatever the dtype the dates are written in", funcs=FUNCS)


def ob_topology_edit(kind):
    """the topology of a LIVE model is changed in place (two subtrees exchanged on `model.tree`) and the model is re-initialised through its
    own hooks (setup_indexes, update_traversals, transform.update_bounds, transform.sort_indices), new parameter values assigned: the
    model is then the model of the new topology - node heights, branch lengths and inverse equal those of a model built afresh from it"""
    def body():
        from torchtree.evolution.tree_model import setup_indexes
        n = 0
        names = NAMES[:5]
        cases = [(((0, 1), 2), (3, 4)), ((((0, 1), 2), 3), 4)]
        for tree in cases:
            for dates in ([0.0, 0.0, 0.0, 0.0, 0.0], [0.0, 2.0, 1.0, 0.5, 3.0], [2010.0, 2012.5, 2011.25, 2015.0, 2013.75]):
                for batch in ((), (3,)):
                    g = torch.Generator().manual_seed(5 + n)
                    def draw():
                        if kind == "ratios":
                            r = torch.rand(batch + (3,), generator=g, dtype=torch.float64) * 0.8 + 0.1
                            return torch.cat((r, torch.rand(batch + (1,), generator=g, dtype=torch.float64) + max(treemodels.ages_of(dates)) + 1.0), -1)
                        return torch.rand(batch + (4,), generator=g, dtype=torch.float64) + 0.2
                    tm, _ = treemodels.build_reparam(tree, names, dates, draw(), kind)
                    tm.node_heights, tm.branch_lengths()          # every lazily built value exists before the edit
                    # exchange leaf 0 ("A") with the subtree that is the sibling of A's parent
                    t = tm.tree
                    a = [nd for nd in t.leaf_node_iter() if nd.taxon.label == names[0]][0]
                    pa = a.parent_node
                    gp = pa.parent_node
                    b = [c for c in gp.child_nodes() if c is not pa][0]
                    pa.remove_child(a)
                    gp.remove_child(b)
                    pa.add_child(b)
                    gp.add_child(a)
                    setup_indexes(t)
                    tm.update_traversals()
                    for hook in ("update_bounds", "sort_indices"):      # the ratio transform keeps index tables of its own
                        if hasattr(tm.transform, hook):
                            getattr(tm.transform, hook)()
                    x = draw()
                    treemodels.tree_parameter(tm).tensor = x.clone()
                    newick = t.as_string(schema="newick", suppress_rooting=True, suppress_edge_lengths=True, suppress_internal_node_labels=True).strip()
                    from torchtree.core.parameter import Parameter
                    from torchtree.evolution.tree_model import ReparameterizedTimeTreeModel, initialize_dates_from_taxa, parse_tree
                    taxa = treemodels.make_taxa(names, dates)
                    t2 = parse_tree(taxa, {"newick": newick})
                    initialize_dates_from_taxa(t2, taxa)
                    fresh = ReparameterizedTimeTreeModel("fresh", t2, taxa, **({"ratios_root_height": Parameter("p2", x.clone())} if kind == "ratios" else {"shifts": Parameter("p2", x.clone())}))
                    n += 1
                    if [tuple(r) for r in tm.postorder] != [tuple(r) for r in fresh.postorder]:
                        raise Undecided("the edited tree and the tree parsed from its own NEWICK string are indexed differently: the comparison is not meaningful")
                    for what, a_, b_ in (("node heights", tm.node_heights, fresh.node_heights), ("branch lengths", tm.branch_lengths(), fresh.branch_lengths()),
                                         ("inverse of the node heights", tm.transform.inv(tm.node_heights[..., 5:]), x)):
                        if a_.shape != b_.shape or not torch.allclose(a_, b_, rtol=1e-10, atol=1e-10):
                            raise Refuted("%s, topology %s edited in place to %s and re-initialised (dates %s, batch %s): %s are %s, a model built from the new topology has %s" % (
                                kind, tree, newick, dates, batch, what, a_.tolist(), b_.tolist()), witness={"kind": kind, "tree": str(tree), "dates": dates, "batch": list(batch)},
                                confirmed=True, replay={"kind": "custom", "contract": "C06", "func": "replay_topology_edit", "args": {"kind": kind}})
        return {"backend": "concrete", "cases": n, "bounded": "2 topologies x 3 date patterns x batch () and (3,), one subtree exchange each",
                "statement": "%s: after an in-place subtree exchange and re-initialisation the live model equals a model built from the new topology" % kind}
    return Ob("C06.topology_edit[%s]" % kind, "B", body, clause="valid and invertible for the CURRENT topology of a live model (bounded)", funcs=FUNCS)


def _heights_alone(kind, tree, dates, x):
    tm, _ = treemodels.build_reparam(tree, NAMES[:5], dates, torch.tensor(x, dtype=torch.float64), kind)
    return tm.node_heights.tolist(), tm.branch_lengths().tolist()


def ob_models_one_process(kind):
    """two tree models of DIFFERENT topologies in one process: the first one, evaluated (and re-initialised through its own hooks) after the
    second has been built, has the node heights and branch lengths it has in a process of its own"""
    def body():
        from vt.isolate import fresh
        n = 0
        dates = [0.0, 2.0, 1.0, 0.5, 3.0]
        trees_ = [(((0, 1), 2), (3, 4)), ((((0, 1), 2), 3), 4), ((0, (1, (2, 3))), 4)]
        xs = {"ratios": [0.3, 0.6, 0.45, 7.5], "shifts": [0.4, 0.7, 0.3, 0.9]}[kind]
        xs2 = {"ratios": [0.5, 0.2, 0.8, 9.0], "shifts": [0.2, 1.1, 0.6, 0.5]}[kind]
        for ta, tb in ((trees_[0], trees_[1]), (trees_[1], trees_[2]), (trees_[2], trees_[0])):
            alone1 = fresh(_heights_alone, kind, ta, dates, xs)        # before anything is built in this process
            alone2 = fresh(_heights_alone, kind, ta, dates, xs2)
            A, _ = treemodels.build_reparam(ta, NAMES[:5], dates, torch.tensor(xs, dtype=torch.float64), kind)
            B, _ = treemodels.build_reparam(tb, NAMES[:5], dates, torch.tensor(xs2, dtype=torch.float64), kind)
            B.node_heights, B.branch_lengths()
            for stage, want in (("evaluated after the second model was built", alone1), ("after cpu() and a new parameter value", alone2)):
                if stage.startswith("after cpu"):
                    A.cpu()
                    for hook in ("update_bounds", "sort_indices"):
                        if hasattr(A.transform, hook):
                            getattr(A.transform, hook)()
                    treemodels.tree_parameter(A).tensor = torch.tensor(xs2, dtype=torch.float64)
                got = (A.node_heights.tolist(), A.branch_lengths().tolist())
                n += 1
                for what, g_, w_ in (("node heights", got[0], want[0]), ("branch lengths", got[1], want[1])):
                    if len(g_) != len(w_) or any(abs(a - b) > 1e-12 for a, b in zip(g_, w_)):
                        raise Refuted("%s, topology %s %s (topology %s): %s are %s, in a process of its own the model has %s" % (kind, ta, stage, tb, what, g_, w_),
                                      witness={"kind": kind, "first": str(ta), "second": str(tb), "stage": stage}, confirmed=True,
                                      replay={"kind": "custom", "contract": "C06", "func": "replay_models_one_process", "args": {"kind": kind}})
        return {"backend": "concrete", "cases": n, "bounded": "3 pairs of 5-taxon topologies",
                "statement": "%s: a tree model evaluated after another model was built equals the same model in a process of its own (%d comparisons)" % (kind, n)}
    return Ob("C06.models_in_one_process[%s]" % kind, "B", body, clause="valid and invertible whatever other tree models exist in the process (bounded)", funcs=FUNCS)


_FRACTIONAL_DATES = {
    "calendar years": [2017.3721, 2015.118, 2010.77, 1999.4, 2017.3699],
    "calendar years, one tip at the latest date twice": [2021.9183, 2021.9183, 2019.0417, 2020.5521, 2003.33],
    "ages": [0.0, 2.2541, 6.6021, 17.9721, 0.0022],
}


def _fractional_dates_problems(kind, label):
    """tips at their sampling times to the resolution the heights are stored with, for dates that are not exactly representable in single
    precision; under the library's own default dtype (float32: the sampling times are stored in it) and under float64"""
    from vt.runner import default_dtype
    bad = []
    for dt in (torch.float32, torch.float64):
        with default_dtype(dt):
            bad += ["default dtype %s: %s" % (str(dt)[6:], b) for b in _fractional_dates_problems_(kind, label)]
    return bad


def _fractional_dates_problems_(kind, label):
    dates = _FRACTIONAL_DATES[label]
    tree = (((0, 1), 2), (3, 4))
    if label == "ages":
        ages = list(dates)
    else:
        ages = [max(dates) - d for d in dates]       # in double precision, as the statement's "sampling time"
    root = max(ages) + 5.0
    if kind == "heights":
        # internal heights of (((0,1),2),(3,4)) in node order
        hs = torch.tensor([max(ages[0], ages[1]) + 1.0, max(ages[0], ages[1], ages[2]) + 2.0, max(ages[3], ages[4]) + 1.5, root], dtype=torch.float64)
        tm, _ = treemodels.build_timetree(tree, NAMES[:5], dates, hs)
    else:
        x = torch.tensor({"ratios": [0.3, 0.6, 0.45, root], "shifts": [0.4, 0.7, 0.3, 0.9]}[kind], dtype=torch.float64)
        tm, _ = treemodels.build_reparam(tree, NAMES[:5], dates, x, kind)
    nh = tm.node_heights
    bad = []
    for i, a in enumerate(ages):
        got = float(nh[..., i])
        tol = 2.0 ** -23 * max(abs(a), 1e-30)      # one unit of single precision of the age itself
        if abs(got - a) > tol:
            bad.append("tip %s sampled at %r sits at height %r, its sampling time is %r before the most recent sample (off by %.3g)" % (NAMES[i], dates[i], got, a, got - a))
    return bad


def ob_fractional_dates(kind, label):
    def body():
        bad = _fractional_dates_problems(kind, label)
        if bad:
            raise Refuted("%s tree model, %s %s: %s" % (kind, label, _FRACTIONAL_DATES[label], "; ".join(bad[:2])), witness={"kind": kind, "dates": label, "problems": bad},
                          replay={"kind": "custom", "contract": "C06", "func": "replay_fractional_dates", "args": {"kind": kind, "dates": label}}, confirmed=True)
        return {"backend": "concrete", "cases": len(_FRACTIONAL_DATES[label]),
                "statement": "%s, %s: every tip height equals (latest date - date), computed in double precision, to one unit of single precision of that age" % (kind, label)}
    return Ob("C06.tips.fractional_dates[%s,%s]" % (kind, label), "B", body,
              clause="every tip sits at its sampling time (dates that single precision cannot represent exactly; storage precision of the age is the tolerance)", funcs=FUNCS)


def replay_fractional_dates(args):
    bad = _fractional_dates_problems(args["kind"], args["dates"])
    return (False, "; ".join(bad[:3])) if bad else (True, "held")


def replay_models_one_process(args):
    try:
        ob_models_one_process(args["kind"]).fn()
    except Refuted as e:
        return False, e.detail
    return True, "held"


def replay_topology_edit(args):
    try:
        ob_topology_edit(args["kind"]).fn()
    except Refuted as e:
        return False, e.detail
    return True, "held"


def replay_dtype(args):
    try:
        ob_dtype(args["kind"], args["date_kind"]).fn()
    except Refuted as e:
        return False, e.detail
    return True, "held"


def ob_inplace_update(kind):
    """heights follow an in-place parameter update + change notification (what the optimiser does)"""
    def body():
        tree = ((0, 1), (2, 3))
        T = 4
        names = NAMES[:T]
        dates = [0.0, 1.0, 0.0, 2.0]
        x = torch.tensor([0.5, 0.25, 3.0], dtype=torch.float64) if kind == "ratios" else torch.tensor([0.5, 0.7, 0.3], dtype=torch.float64)
        tm, newick = treemodels.build_reparam(tree, names, dates, x.clone(), kind)
        p = treemodels.tree_parameter(tm)
        _ = tm.node_heights, tm.branch_lengths(), tm()
        with torch.no_grad():
            p.tensor.mul_(0.9) if kind == "ratios" else p.tensor.add_(0.25)
        p.fire_parameter_changed()
        got_h, got_b = tm.node_heights.clone(), tm.branch_lengths().clone()
        back = tm.transform.inv(got_h[..., T:])
        fresh, _ = treemodels.build_reparam(tree, names, dates, p.tensor.clone(), kind)
        if not (torch.allclose(got_h, fresh.node_heights) and torch.allclose(got_b, fresh.branch_lengths()) and torch.allclose(back, p.tensor)):
            raise Refuted("after an in-place update + notification the %s tree reports heights %s, a fresh model with the same parameters %s; inv gives %s for parameters %s"
                          % (kind, got_h.tolist(), fresh.node_heights.tolist(), back.tolist(), p.tensor.tolist()),
                          witness={"kind": kind}, replay={"kind": "custom", "contract": "C06", "func": "replay_inplace", "args": {"kind": kind}}, confirmed=True)
        return {"backend": "heap", "statement": "%s tree: heights, branch lengths and inverse follow an in-place update" % kind}
    return Ob("C06.update.inplace[%s]" % kind, "U", body, clause="heights are those of the current parameters", funcs=FUNCS)


def ob_reparam_history(kind, depth):
    """every history (length <= depth) of {assign, in-place update + notification, read heights, read branch lengths, call} on the real
    ReparameterizedTimeTreeModel: each checked read equals that of a fresh model at the current parameter value"""
    def body():
        bad, n, seen = treemodels.reparam_histories(kind, depth, check=("heights", "bl"))
        if bad is not None:
            hist, op, got, want = bad
            raise Refuted("%s tree after the history %s: %s returns %s, a fresh model at the current parameter value returns %s" % (kind, list(hist), op, got, want),
                          witness={"kind": kind, "history": list(hist)}, replay={"kind": "custom", "contract": "C06", "func": "replay_reparam_history", "args": {"kind": kind, "depth": depth}}, confirmed=True)
        allst = [set().union(*seen[:d + 1]) for d in range(len(seen))]
        sat = next((d for d in range(1, len(allst) - 1) if allst[d] == allst[-1]), None)
        return {"backend": "heap", "cases": n, "statement": "%d histories; dirty-flag states reached: %d, saturated from depth %s (exhaustive modulo the flag abstraction if saturated)" % (n, len(allst[-1]), sat)}
    return Ob("C06.reparam.history[%s,depth<=%d]" % (kind, depth), "B", body, clause="node heights and branch lengths are those of the CURRENT parameters after every history of updates and reads", funcs=FUNCS)


def replay_reparam_history(args):
    try:
        ob_reparam_history(args["kind"], args["depth"]).fn()
    except Refuted as e:
        return False, e.detail
    return True, "held"


def replay_inplace(args):
    try:
        ob_inplace_update(args["kind"]).fn()
    except Refuted as e:
        return False, e.detail
    return True, "held"


def replay_frame(args):
    ob = ob_frame(args["kind"], args["op"])
    try:
        ob.fn()
    except Refuted as e:
        return False, e.detail
    return True, "held"


def replay_frame_transformed(args):
    try:
        ob_frame_transformed(args["op"]).fn()
    except Refuted as e:
        return False, e.detail
    return True, "held"


# ----------------------------------------------------------------------------------------------


def _tree_strs(T):
    return [repr(t).replace(" ", "") for t in trees.all_rooted_binary(list(range(T)))]


def obligations(tier, seed):
    rng = random.Random(seed)
    obs = []

    def add(name, factory, args, clause, tag="V", **kw):
        obs.append(scenario_ob("C06", name, tag, factory, args, clause=clause, funcs=FUNCS, seed=seed, **kw))

    patterns = list(treemodels.DATE_PATTERNS)
    for T in (3, 4, 5, 6):
        tl = _tree_strs(T)
        if tier == "quick":
            if T == 5:
                tl = rng.sample(tl, 24)
            if T == 6:
                tl = rng.sample(tl, 16)
        elif T == 6:
            pass
        for k, ts in enumerate(tl):
            ts = repr(trees.shuffle_children(ast.literal_eval(ts), rng)).replace(" ", "")
            pats = patterns if T <= 4 else [patterns[k % 4], patterns[(k + 1) % 4]]
            if T == 6:
                pats = [patterns[k % 4]]
            for pat in pats:
                batches = [(), (2,)] + ([(1,)] if T <= 3 else []) if (T <= 4 or k % 3 == 0) else [()]
                for b in batches:
                    add("C06.ratio[tree=%s,dates=%s,batch=%s]" % (ts, pat, b), "scn_ratio", (ts, pat, b), "ratio parameterisation: valid + invertible")
                    if T <= 5:
                        add("C06.diff[tree=%s,dates=%s,batch=%s]" % (ts, pat, b), "scn_diff", (ts, pat, b, 0), "increment parameterisation: valid + invertible", max_paths=3000)
            if T <= 4:
                add("C06.timetree[tree=%s,dates=%s]" % (ts, pats[0]), "scn_timetree", (ts, pats[0], ()), "heights -> branch lengths")
                add("C06.timetree[tree=%s,dates=%s,batch=(2,)]" % (ts, pats[-1]), "scn_timetree", (ts, pats[-1], (2,)), "heights -> branch lengths")
    for k in range(3):
        obs.append(scenario_ob("C06", "C06.ratio.cut[pair=%d]" % k, "U", "scn_ratio_cut", (k,),
                               clause="generic iteration of the pre-order loop: valid height, frame (unbounded in taxa)", funcs=FUNCS, seed=seed))
    add("C06.diff.smooth[tree=((0,1),(2,3)),k=2]", "scn_diff", ("((0,1),(2,3))", "hetero", (), 2.0), "smooth-max increment parameterisation: invertible")
    add("C06.diff.smooth[tree=((0,1),2),k=1,batch=(2,)]", "scn_diff", ("((0,1),2)", "ties", (2,), 1.0), "smooth-max increment parameterisation: invertible")
    for kind in ("ratios", "shifts"):
        for op in ("cpu", "to_float64", "to_cpu_device"):
            obs.append(ob_frame(kind, op))
    for op in ("cpu", "to_float64"):
        obs.append(ob_frame_transformed(op))
    for kind in ("heights", "ratios", "shifts"):
        for label in _FRACTIONAL_DATES:
            obs.append(ob_fractional_dates(kind, label))
    for kind in ("ratios", "shifts"):
        obs.append(ob_inplace_update(kind))
        obs.append(ob_topology_edit(kind))
        obs.append(ob_models_one_process(kind))
        for dk in ("int", "int_ages", "float"):
            obs.append(ob_dtype(kind, dk))
    for dk in ("int", "int_ages", "float"):
        obs.append(ob_dtype("heights", dk))
        obs.append(ob_reparam_history(kind, 4 if tier == 'quick' else 5))
    return obs
