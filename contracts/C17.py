"""C17 - a checkpoint restores the whole run state; resuming continues the same run (DESIGN 4, C17).

Contracts on the REAL classes of the working tree (imported on every run, never re-written):

  C17.roundtrip.<Class>[cfg].restart_ok   load_state_dict(J(state_dict())) does not raise          (U, heap)
  C17.roundtrip.<Class>[cfg].state        every frame field of a fresh instance equals the
                                          original after load_state_dict(J(state_dict()))          (U, heap)
  C17.counter.*                           a resumed run continues with the NEXT iteration           (U)
  C17.codec.*                             tensor / Parameter codec, update_parameters               (V)
  C17.optim[*]                            torch.optim state through the real JSON path              (B)
  C17.main[*]                             the real torchtree main() restarted from its checkpoint   (B)
  C17.guard.* / C17.vacuity.*             soundness guards

J is the real JSON path: the encoder class that ``save_parameters`` passes to json.dump and the decoder class
that ``main`` passes to json.load (both resolved from the source on every run).
"""
from __future__ import annotations

import ast
import collections
import contextlib
import inspect
import io
import json
import os
import textwrap
import traceback

import torch

from vt import stateheap as sh
from vt.cond import Undecided
from vt.runner import Ob, Refuted
from vt.scenario import _raised_in_repo

FUNCS = [
    "torchtree.inference.mcmc.mcmc:MCMC.state_dict",
    "torchtree.inference.mcmc.mcmc:MCMC.load_state_dict",
    "torchtree.inference.mcmc.mcmc:MCMC.save_full_state",
    "torchtree.inference.mcmc.mcmc:MCMC.run",
    "torchtree.inference.mcmc.operator:MCMCOperator.state_dict",
    "torchtree.inference.mcmc.operator:MCMCOperator.load_state_dict",
    "torchtree.inference.mcmc.operator:ScalerOperator._state_dict",
    "torchtree.inference.mcmc.operator:ScalerOperator._load_state_dict",
    "torchtree.inference.mcmc.operator:SlidingWindowOperator._state_dict",
    "torchtree.inference.mcmc.operator:SlidingWindowOperator._load_state_dict",
    "torchtree.inference.mcmc.operator:DirichletOperator._state_dict",
    "torchtree.inference.mcmc.operator:DirichletOperator._load_state_dict",
    "torchtree.inference.mcmc.gmrf_block_updating:GMRFPiecewiseCoalescentBlockUpdatingOperator._state_dict",
    "torchtree.inference.mcmc.gmrf_block_updating:GMRFPiecewiseCoalescentBlockUpdatingOperator._load_state_dict",
    "torchtree.inference.hmc.operator:HMCOperator._state_dict",
    "torchtree.inference.hmc.operator:HMCOperator._load_state_dict",
    "torchtree.inference.hmc.integrator:Integrator.state_dict",
    "torchtree.inference.hmc.integrator:LeapfrogIntegrator._state_dict",
    "torchtree.inference.hmc.integrator:LeapfrogIntegrator.load_state_dict",
    "torchtree.inference.hmc.adaptation:Adaptor.state_dict",
    "torchtree.inference.hmc.adaptation:AdaptiveStepSize._state_dict",
    "torchtree.inference.hmc.adaptation:AdaptiveStepSize.load_state_dict",
    "torchtree.inference.hmc.adaptation:DualAveragingStepSize._state_dict",
    "torchtree.inference.hmc.adaptation:DualAveragingStepSize.load_state_dict",
    "torchtree.inference.hmc.adaptation:MassMatrixAdaptor._state_dict",
    "torchtree.inference.hmc.adaptation:MassMatrixAdaptor.load_state_dict",
    "torchtree.optim.optimizer:Optimizer.state_dict",
    "torchtree.optim.optimizer:Optimizer.load_state_dict",
    "torchtree.optim.optimizer:Optimizer.save_full_state",
    "torchtree.optim.optimizer:Optimizer._run",
    "torchtree.optim.optimizer:Optimizer._run_closure",
    "torchtree.optim.lr_scheduler:Scheduler.state_dict",
    "torchtree.optim.lr_scheduler:Scheduler.load_state_dict",
    "torchtree.core.utils:TensorEncoder.default",
    "torchtree.core.utils:TensorDecoder.object_hook",
    "torchtree.core.utils:update_parameters",
    "torchtree.core.parameter_encoder:ParameterEncoder.default",
    "torchtree.core.parameter_utils:save_parameters",
    "torchtree.core.parameter:Parameter.from_json",
    "torchtree.torchtree:main",
]

META = {
    "level": "other",
    "explanation": (
        "Heap argument per class. The frame of a class (fields a run can change) is computed from its source: "
        "fields assigned outside __init__/from_json, containers and owned objects mutated through method calls, "
        "plus fields other classes assign through a collaborator reference (collaborators that state_dict reads are components or held objects). A live instance A of "
        "the real class is driven through its real mutating methods (0, 3 and 12 calls: this fixes container lengths "
        "and None-ness), then every leaf of every frame field is replaced by a fresh, pairwise distinct sentinel of the "
        "same type/shape/dtype. The real state_dict() output goes through the real JSON encoder/decoder and the real "
        "load_state_dict of a freshly constructed instance B; B must not raise and every frame field of B must equal "
        "A's (typed: tensor dtype, nn.Parameter-ness, container and key types). Why distinct sentinels give 'for all "
        "states': the bodies of state_dict/load_state_dict are checked (AST) to be copy-only - attribute reads, dict/"
        "list construction, nested state_dict/load_state_dict calls, conversions, and control flow whose conditions "
        "read only configuration (ids, hasattr, emptiness of collaborator lists). A copy-only body maps each saved "
        "slot to one field independently of the values, so a run on pairwise distinct values that ends with every "
        "field equal shows that each field is wired to its own slot - for every value; a field that is not carried, "
        "or is carried to the wrong slot, differs from the default/neighbour because no sentinel equals a default or "
        "another sentinel. Configuration branches (None-ness of optional components, list lengths, mass-matrix shape) are enumerated as variants inside each obligation. Composite classes (MCMC, "
        "HMCOperator, Optimizer, Scheduler) are verified modularly: their components are contract stand-ins that must "
        "receive exactly J(own state_dict()) (torchtree components) or exactly own state_dict() (torch objects, whose "
        "documented contract is 'load_state_dict takes what state_dict returned'). The iteration-counter clause runs the "
        "real MCMC.run / Optimizer._run / _run_closure loops with deterministic collaborators, interrupts them right "
        "after a checkpoint and compares the resumed trace with the uninterrupted one over a grid of (iterations, "
        "frequency, checkpoint), together with an AST check of the order save / increment in the loop body. "
        "level is 'other' because (i) torch.optim and main() clauses are bounded stand-ins (B), (ii) the codec is "
        "enumerated over ranks 0..3 (V), (iii) container lengths are enumerated, not symbolic."),
    "bound": "warm-up lengths 0/3/12; operator lists 0..3; adaptor lists 0..3; mass matrix diagonal/dense, float32/float64, "
             "tensor/nn.Parameter; codec ranks 0..3 x 4 dtypes; counter grid N<=6, frequency<=3; optim: SGD, SGD+momentum, "
             "Adam (float32/float64), LBFGS, each with StepLR, 3+3 steps on a 3-d quadratic; main(): 4 tiny configurations",
    "exhaustive": False,
    "trusted_base": [
        "CPython 3.12 executing the real methods (Python semantics are used, not modelled)",
        "json module: dumps/loads are inverse on trees of dict(str keys)/list/str/int/float/bool/None; float repr round-trips exactly; non-str keys are coerced to str; tuples become lists",
        "torch.tensor(list, dtype=d) o Tensor.tolist() is the identity for dtypes float32/float64/int64/bool (checked on every run by C17.codec)",
        "ast/inspect: the parsed source is the source of the imported class",
        "torch.optim / torch.optim.lr_scheduler internals for the B obligations; their documented contract 'load_state_dict accepts an object returned by state_dict()' for the U obligations on Optimizer/Scheduler",
        "vt.stateheap frame scan (flow-insensitive; guarded by must-fail twins and by C17.guard.frames)",
    ],
    "assumptions": [
        "a restart re-reads the same JSON configuration with the same --dtype, so configuration fields (everything assigned only in __init__) are equal by construction and are outside the frame",
        "the RNG state is not part of a checkpoint; the 'same sequence of parameter states' clause is decided for deterministic collaborators only",
        "parameters have at least one element or a zero only in the trailing dimension (JSON nested lists cannot carry shape (0,3); observed and reported by C17.codec.tensor, not counted)",
        "update_parameters is specified for parameter dicts that are not nested inside another parameter dict (inline full_like/zeros_like definitions are not descended into; reported by C17.codec.update_parameters)",
        "floating tensors of a run have the dtype selected by --dtype, except that a mass matrix of another dtype is covered (variants diag32); float32 *sampled parameters* in a float64 run are "
        "outside the domain (observed there: MassMatrixAdaptor restores its sample window in the dtype of the mean - the values are exact and the continued run is identical, only the in-memory dtype differs)",
        "adaptors reference the integrator / mass-matrix objects of the HMCOperator that owns them (by id in the configuration), so state they assign through those references is saved by the operator",
        "MCMCOperator.saved_tensors is scratch state: assigned unconditionally at the top of step() before any read, checkpoints are taken between steps (checked on the AST by C17.guard.transient)",
        "stand-ins: components of composites are vt.stateheap.SpecStateful; save_parameters is replaced by an in-memory capture in C17.counter (file-system behaviour is C18's subject)",
    ],
}

MANIFEST = {
    "category": "other",
    "text": "For every class of torchtree that defines a state_dict/load_state_dict pair (discovered by import + "
            "introspection) the real methods are executed on a live instance whose run-mutable fields (frame, computed "
            "from the source) hold pairwise distinct sentinels; the saved structure goes through the real JSON encoder/"
            "decoder into the real loader of a fresh instance, which must not raise and must reproduce every frame "
            "field (typed equality). The save/load bodies are checked to be copy-only, which lifts the sentinel run to "
            "all states; configuration branches and container lengths are enumerated. Iteration counters are decided by "
            "interrupting the real run loops after a checkpoint. torch.optim state and the real main() are bounded "
            "stand-ins.",
    "note": "Not a proof: container lengths, operator/adaptor list lengths and tensor ranks are enumerated; torch.optim "
            "internals and main() are exercised on concrete tiny problems (B); RNG state is outside the checkpoint, so "
            "trajectory equality is decided for deterministic collaborators only.",
    "technique": "sidecar heap contracts on real methods: AST frame inference + sentinel heap + real JSON path + typed "
                 "heap comparison; modular composition through contract stand-ins; loop interruption of the real run loops",
}

QUAL = {}  # class name -> module:qualname, filled by _discover()


# ==========================================================================================
# construction recipes (collaborators only; the classes themselves are the real ones)
# ==========================================================================================
def _P(id_, values, dtype=None, nn=False):
    from torchtree.core.parameter import Parameter
    t = torch.tensor(values, dtype=dtype or torch.get_default_dtype())
    if nn:
        t = torch.nn.Parameter(t, requires_grad=False)
    return Parameter(id_, t)


def _params():
    return [_P("p1", [0.3, 1.2, 2.5]), _P("p2", [0.7, 0.9])]


def _mass(kind):
    """kind: 'diag' | 'dense' | 'diag32' | 'dense-nn'"""
    dtype = torch.float32 if "32" in kind else None
    nn = "nn" in kind
    if kind.startswith("diag"):
        return _P("mass", [1.0, 1.0, 1.0, 1.0, 1.0], dtype, nn)
    return _P("mass", torch.eye(5).tolist(), dtype, nn)


def _integrator():
    from torchtree.inference.hmc.integrator import LeapfrogIntegrator
    return LeapfrogIntegrator("leapfrog", 7, 0.0125)


def _payload(sent, torch_like=False):
    """an opaque component state made of fresh sentinels. torch_like: the documented layout of
    torch.optim.Optimizer.state_dict() (int keys index the parameters)"""
    if torch_like:
        return {"state": {0: {"step": sent.fresh_tensor(torch.zeros(())), "exp_avg": sent.fresh_tensor(torch.zeros(3))},
                          1: {"step": sent.fresh_tensor(torch.zeros(())), "exp_avg": sent.fresh_tensor(torch.zeros(2))}},
                "param_groups": [{"lr": sent.fresh_float(), "betas": (sent.fresh_float(), sent.fresh_float()),
                                  "params": [0, 1]}]}
    return {"a": sent.fresh_int(), "b": sent.fresh_float(), "c": [sent.fresh_float(), sent.fresh_float()],
            "t": sent.fresh_tensor(torch.zeros(2))}


def _sched_payload(sent, milestones=True):
    # layout of torch.optim.lr_scheduler.StepLR.state_dict() plus the one int-keyed container torch schedulers keep
    # (MultiStepLR.milestones, a Counter keyed by epoch)
    out = {"step_size": sent.fresh_int(), "gamma": sent.fresh_float(), "base_lrs": [sent.fresh_float()],
           "last_epoch": sent.fresh_int(), "_step_count": sent.fresh_int(), "_last_lr": [sent.fresh_float()],
           "_get_lr_called_within_step": False}
    if milestones:
        out["milestones"] = collections.Counter({sent.fresh_int(): 1, sent.fresh_int(): 2})
    return out


def _quiet(fn, *a, **k):
    with contextlib.redirect_stdout(io.StringIO()):
        return fn(*a, **k)


class Recipe:
    """one configuration of one class. make(mode, sent) returns a fresh instance ('spec': components of
    composites are stand-ins, 'real': real components); warm(inst, n) drives n rounds of the real mutators."""

    def __init__(self, cls, label, make, warm=None, specs=None):
        # make: one factory or a list of (variant label, factory): configuration branches run inside one obligation
        self.cls, self.label, self.warm = cls, label, warm
        # a variant may carry a default dtype: the whole round trip then runs as under ``torchtree --dtype float32``
        vs = make if isinstance(make, list) else [("", make)]
        self.variants = [(v[0], v[1]) for v in vs]
        self.dtypes = [v[2] if len(v) > 2 else None for v in vs]
        self.make = self.variants[0][1]
        self.specs = specs  # inst -> [(name, stand-in, strict)]

    @property
    def name(self):
        return self.cls.__name__ + ("[%s]" % self.label if self.label else "")


def _warm_operator(step):
    def warm(op, n):
        for i in range(n):
            if step:
                op.step()
            elif i == 0:
                op.saved_tensors = [p.tensor.clone() for p in op.parameters]
            if i % 3:
                op.accept()
            else:
                op.reject()
            op.tune(torch.tensor(0.3 + 0.05 * (i % 5)), i + 1, bool(i % 3))
    return warm


def _warm_adaptor(ad, n):
    for i in range(n):
        for p in getattr(ad, "_parameters", []):
            p.tensor = p.tensor + 0.01 * (i + 1) * torch.arange(1, p.shape[-1] + 1)
        ad.learn(torch.tensor(0.55 + 0.03 * (i % 7)), i + 1, bool(i % 2))


def _recipes(quals):
    """recipes for every discovered concrete class; classes without a recipe are reported undecided"""
    from torchtree.inference.hmc import adaptation as ad
    from torchtree.inference.hmc.integrator import LeapfrogIntegrator
    from torchtree.inference.hmc.operator import HMCOperator
    from torchtree.inference.mcmc import operator as mo
    from torchtree.inference.mcmc.gmrf_block_updating import GMRFPiecewiseCoalescentBlockUpdatingOperator as GMRFOp
    from torchtree.inference.mcmc.mcmc import MCMC
    from torchtree.optim.lr_scheduler import Scheduler
    from torchtree.optim.optimizer import Optimizer
    import types

    R = []
    def warm_integrator(inst, n):
        # the step size is only ever assigned from outside (HMCOperator.set_adaptable_parameter, adaptors): drive it
        # through a real AdaptiveStepSize bound to this integrator
        a = ad.AdaptiveStepSize("a", inst, 0.8)
        for i in range(n):
            a.learn(torch.tensor(0.3 + 0.04 * i), i + 1, True)

    R.append(Recipe(LeapfrogIntegrator, "", lambda mode, sent: _integrator(), warm_integrator))
    # acceptance windows: the constructor default (100), a short one that fills up within the warm-up and continuation lengths,
    # and the from_json default (False)
    def windows(mk):
        return [("", lambda mode, sent: mk()), ("window=4", lambda mode, sent: mk(acceptance_window_length=4)),
                ("window=False", lambda mode, sent: mk(acceptance_window_length=False))]
    R.append(Recipe(mo.ScalerOperator, "", windows(lambda **kw: mo.ScalerOperator("op", _params(), 1.0, 0.24, 0.6, **kw)), _warm_operator(True)))
    R.append(Recipe(mo.SlidingWindowOperator, "", windows(lambda **kw: mo.SlidingWindowOperator("op", _params(), 1.0, 0.24, 0.4, **kw)), _warm_operator(True)))
    R.append(Recipe(mo.DirichletOperator, "", windows(lambda **kw: mo.DirichletOperator("op", [_P("freqs", [0.2, 0.3, 0.5])], 1.0, 0.24, 50.0, **kw)), _warm_operator(True)))
    R.append(Recipe(GMRFOp, "", lambda mode, sent: GMRFOp("op", None, types.SimpleNamespace(field=_P("field", [0.1, 0.2, 0.3]), precision=_P("tau", [1.5])), 1.0, 0.24, 2.0), _warm_operator(False)))
    R.append(Recipe(ad.AdaptiveStepSize, "", [("", lambda mode, sent: ad.AdaptiveStepSize("ass", _integrator(), 0.8)),
                                              ("use_acceptance_rate", lambda mode, sent: ad.AdaptiveStepSize("ass", _integrator(), 0.8, use_acceptance_rate=True))], _warm_adaptor))
    R.append(Recipe(ad.DualAveragingStepSize, "", [("", lambda mode, sent: ad.DualAveragingStepSize("dass", _integrator(), mu=0.1)),
                                                   ("from_json defaults", lambda mode, sent: ad.DualAveragingStepSize.from_json(
                                                       {"id": "dass", "integrator": "leapfrog"}, {"leapfrog": _integrator()})),
                                                   ("from_json window", lambda mode, sent: ad.DualAveragingStepSize.from_json(
                                                       {"id": "dass", "integrator": "leapfrog", "start": 2, "end": 8}, {"leapfrog": _integrator()}))],
                    _warm_adaptor))
    for label, kw in (("", {}), ("variance_window", {"variance_window": 1}), ("swap_every", {"swap_every": 5})):
        R.append(Recipe(ad.MassMatrixAdaptor, label,
                        [(mk, (lambda mk, kw: lambda mode, sent: ad.MassMatrixAdaptor("mma", _params(), _mass(mk), True, update_frequency=4, **kw))(mk, kw))
                         for mk in ("diag", "dense", "diag32")] +
                        [("diag,float32-run", (lambda kw: lambda mode, sent: ad.MassMatrixAdaptor("mma", _params(), _mass("diag"), True, update_frequency=4, **kw))(kw), torch.float32)],
                        _warm_adaptor))

    # ---- composites -------------------------------------------------------------------
    def joint():
        return torch.tensor(0.0)

    def mk_hmc(n_adaptors, mk):
        def make(mode, sent):
            if mode == "spec":
                integ = sh.SpecStateful("leapfrog", _payload(sent), step_size=0.0125)
                adaptors = [sh.SpecStateful("adaptor%d" % i, _payload(sent), learn=lambda *a, **k: None) for i in range(n_adaptors)]
            else:
                integ = _integrator()
                mass = _mass(mk)
                adaptors = [ad.AdaptiveStepSize("adaptor0", integ, 0.8), ad.MassMatrixAdaptor("adaptor1", _params(), mass, True, update_frequency=4)][:n_adaptors]
                return HMCOperator("hmc", joint, _params(), integ, mass, 1.0, 0.8, adaptors)
            return HMCOperator("hmc", joint, _params(), integ, _mass(mk), 1.0, 0.8, adaptors)
        return make

    def hmc_specs(inst):
        out = [("_integrator", inst._integrator, False)]
        out += [("_adaptors[%d]" % i, a, False) for i, a in enumerate(inst._adaptors)]
        return out

    R.append(Recipe(HMCOperator, "", [("adaptors=%d,mass=%s" % (n_ad, mk), mk_hmc(n_ad, mk))
                                      for n_ad, mk in ((0, "diag"), (1, "dense"), (2, "diag32"), (3, "dense-nn"), (2, "diag-nn"))],
                    _warm_operator(False), hmc_specs))

    def mk_mcmc(n_ops):
        def make(mode, sent):
            if mode == "spec":
                ops = [sh.SpecStateful("op%d" % i, _payload(sent), weight=1.0, parameters=[]) for i in range(n_ops)]
            else:
                ps = _params()
                ops = [mo.ScalerOperator("op0", ps[:1], 1.0, 0.24, 0.6), mo.SlidingWindowOperator("op1", ps[1:], 1.0, 0.24, 0.4),
                       mo.SlidingWindowOperator("op2", ps, 2.0, 0.24, 0.2)][:n_ops]
                j = lambda: -sum((p.tensor ** 2).sum() for p in ps)  # noqa: E731
                return MCMC("mcmc", j, ops, 0, checkpoint=None, every=0)
            return MCMC("mcmc", joint, ops, 0, checkpoint=None, every=0)
        return make

    def warm_mcmc(inst, n):
        if n and inst._operators and not isinstance(inst._operators[0], sh.SpecStateful):
            inst.iterations = inst._epoch + n - 1
            _quiet(inst.run)

    R.append(Recipe(MCMC, "", [("operators=%d" % n_ops, mk_mcmc(n_ops)) for n_ops in (0, 1, 2, 3)], warm_mcmc,
                    lambda inst: [("_operators[%d]" % i, o, False) for i, o in enumerate(inst._operators)]))

    def mk_optimizer(with_sched, algo="Adam"):
        def make(mode, sent):
            ps = _params()
            if mode == "spec":
                opt = sh.SpecStateful(None, _payload(sent, torch_like=True), with_id=False)
                sched = sh.SpecStateful(None, _sched_payload(sent), with_id=False) if with_sched else None
            else:
                for p in ps:
                    p.requires_grad = True
                opt = getattr(torch.optim, algo)([p.tensor for p in ps], lr=0.1)
                sched = Scheduler(torch.optim.lr_scheduler.StepLR(opt, step_size=2, gamma=0.5)) if with_sched else None
            loss = lambda: -sum(((p.tensor - 0.5) ** 2).sum() for p in ps)  # noqa: E731
            return Optimizer("optimizer", ps, loss, opt, 0, scheduler=sched, checkpoint=None)
        return make

    def warm_optimizer(inst, n):
        if n and not isinstance(inst.optimizer, sh.SpecStateful):
            inst.iterations = inst._epoch + n - 1
            _quiet(inst.run)

    def opt_specs(inst):
        out = [("optimizer", inst.optimizer, True)]
        if inst.scheduler is not None:
            out.append(("scheduler", inst.scheduler, False))
        return out

    R.append(Recipe(Optimizer, "", [("scheduler", mk_optimizer(True)), ("no-scheduler", mk_optimizer(False))], warm_optimizer, opt_specs))

    def mk_scheduler(which):
        def make(mode, sent):
            if mode == "spec":
                return Scheduler(sh.SpecStateful(None, _sched_payload(sent, which == "MultiStepLR"), with_id=False))
            p = _params()[0]
            p.requires_grad = True
            o = torch.optim.SGD([p.tensor], lr=0.1)
            if which == "MultiStepLR":
                return Scheduler(torch.optim.lr_scheduler.MultiStepLR(o, milestones=[2, 5, 9], gamma=0.5))
            return Scheduler(torch.optim.lr_scheduler.StepLR(o, step_size=2, gamma=0.5))
        return make

    def warm_scheduler(inst, n):
        if not isinstance(inst.scheduler, sh.SpecStateful):
            for _ in range(n):
                inst.scheduler.optimizer.step()
                inst.step()

    R.append(Recipe(Scheduler, "", [(w, mk_scheduler(w)) for w in ("StepLR", "MultiStepLR")], warm_scheduler, lambda inst: [("scheduler", inst.scheduler, True)]))
    return R


_CACHE = {}


def _discover():
    if "found" not in _CACHE:
        found, failed = sh.discover("torchtree")
        _CACHE["found"], _CACHE["failed"] = found, failed
        for f in found:
            QUAL[f["cls"].__name__] = f["qual"]
        _CACHE["recipes"] = _recipes(found)
    return _CACHE["found"], _CACHE["recipes"]


def _extra_frames(recipes):
    """fields assigned by *other* classes through a collaborator reference: class -> {field}"""
    extra = collections.defaultdict(set)
    if "extra" in _CACHE:
        return _CACHE["extra"]
    for r in recipes:
        for _, make in r.variants:
            try:
                inst = _quiet(make, "real", sh.Sentinels(0))
            except Exception:
                continue
            for typ, attr, path in sh.foreign_targets(r.cls, inst):
                if typ is not None and sh.has_source(typ) and attr != "[]":
                    extra[typ].add(attr)
    _CACHE["extra"] = extra
    return extra


# ==========================================================================================
# the round trip
# ==========================================================================================
WARM = (0, 3, 12)


def _transient(cls):
    """scratch fields: assigned unconditionally by a top-level statement of a method M that precedes every other kind of statement (the
    straight-line prefix of M), without reading the field, and read only by methods that the run loop calls after M in the same iteration.
    Returns {field: why}."""
    sc = sh.scan(cls)
    out = {}
    for name, defs in sc.methods.items():
        for owner, fn in defs:
            if name in sh.INIT_LIKE or not fn.body:
                continue
            prefix = []
            for st in fn.body:
                if isinstance(st, ast.Expr) and isinstance(st.value, ast.Constant):
                    continue      # docstring
                if not isinstance(st, ast.Assign):
                    break
                prefix.append(st)
            for st in prefix:
                if len(st.targets) != 1:
                    continue
                t = st.targets[0]
                if isinstance(t, ast.Attribute) and isinstance(t.value, ast.Name) and t.value.id == "self":
                    f = t.attr
                    if any(isinstance(n, ast.Attribute) and n.attr == f for n in ast.walk(st.value)):
                        continue
                    readers = {m for (_, m, p) in sc.reads if p[0] == f} - {name}
                    writers = {w.method for w in sc.writes if w.path[0] == f and not w.kind.startswith("call:")} - {name}
                    if name == "step" and readers <= {"reject", "_step"} and not writers - sh.LOAD_LIKE:
                        out[f] = "%s.%s assigns it first; read only by %s (called after step() in MCMC.run)" % (owner, name, sorted(readers))
    return out


@contextlib.contextmanager
def _default_dtype(dt):
    old = torch.get_default_dtype()
    if dt is not None:
        torch.set_default_dtype(dt)
    try:
        yield
    finally:
        torch.set_default_dtype(old)


def _one_roundtrip(recipe, mode, n_warm, seed, extra, tolerant=False, variant=0):
    with _default_dtype(recipe.dtypes[variant]):
        return _one_roundtrip_(recipe, mode, n_warm, seed, extra, tolerant, variant)


def _one_roundtrip_(recipe, mode, n_warm, seed, extra, tolerant=False, variant=0):
    """A: real instance, warmed (and sentinelised in 'spec' mode); B: fresh instance; returns a result dict"""
    enc, dec = sh.json_path()
    sent = sh.Sentinels(seed)
    torch.manual_seed(1000 + seed)
    cls = recipe.cls
    vlabel, make = recipe.variants[variant]
    A = _quiet(make, mode, sent)
    B = _quiet(make, mode, sh.Sentinels(seed + 77))
    if recipe.warm is not None and n_warm:
        _quiet(recipe.warm, A, n_warm)
    ex = extra.get(cls, ())
    replaced = sh.sentinelize(A, cls, sent, ex) if mode == "spec" else []
    fr = sh.frame(cls, A, ex)
    trans = _transient(cls)
    res = {"class": cls.__name__, "config": recipe.label, "variant": vlabel, "mode": mode, "warm": n_warm, "frame": fr["own"],
           "held": fr["held"], "delegated": fr["delegated"], "transient": sorted(trans), "sentinels": len(replaced),
           "raised": None, "diffs": [], "missing_keys": []}
    try:
        s = A.state_dict()
        host = [{"id": getattr(A, "id", None) or "host", "type": cls.__name__, "state": s}]
        text = json.dumps(host, cls=enc, indent=2)
        s2 = json.loads(text, cls=dec)[0]["state"]
    except Exception as e:
        res["raised"] = "saving: %s: %s" % (type(e).__name__, e)
        res["where"] = traceback.format_exc().splitlines()[-3:]
        return res
    res["saved_keys"] = sorted(map(str, s2.keys())) if isinstance(s2, dict) else None
    if tolerant:
        s2 = sh.TolerantDict(s2)
    try:
        _quiet(B.load_state_dict, s2)
    except Exception as e:
        res["raised"] = "%s: %s" % (type(e).__name__, e)
        tb = traceback.extract_tb(e.__traceback__)
        res["where"] = ["%s:%d %s" % (os.path.basename(f.filename), f.lineno, f.line) for f in tb[-2:]]
    if tolerant:
        res["missing_keys"] = list(s2.missing)
    res["diffs"] = sh.compare_frames(A, B, cls, ex, transient=trans)
    # delegation: every stand-in component of B must have received exactly its counterpart's state
    if mode == "spec" and recipe.specs is not None:
        for (name, a, strict), (_, b, _) in zip(recipe.specs(A), recipe.specs(B)):
            if not isinstance(a, sh.SpecStateful):
                continue
            want = a.state_dict() if strict else sh.json_roundtrip(a.state_dict(), enc, dec)
            if len(b.received) != 1:
                res["diffs"].append("%s: load_state_dict called %d times on the component" % (name, len(b.received)))
            else:
                res["diffs"].extend(sh.same(want, b.received[0], name + ".load_state_dict(arg)", tuple_is_list=strict))
    elif recipe.specs is not None:
        for (name, a, _), (_, b, _) in zip(recipe.specs(A), recipe.specs(B)):
            res["diffs"].extend(sh.same(a, b, name, tuple_is_list=True))
    return res


def _find_recipe(clsname, label):
    _, recipes = _discover()
    for r in recipes:
        if r.cls.__name__ == clsname and r.label == label:
            return r
    from_twin = _twins().get(clsname)
    if from_twin is not None:
        return from_twin
    raise Undecided("no recipe for %s[%s]" % (clsname, label))


def replay_roundtrip(args):
    """re-run a recorded refutation on the real classes: real components, state reached through the real
    mutating methods only (no sentinel injection). Returns (ok, msg); ok=False: the failure is reproduced."""
    kind = args.get("kind", "roundtrip")
    if kind == "counter":
        return _replay_counter(args)
    if kind == "optim":
        return _replay_optim(args)
    if kind == "codec":
        return _replay_codec(args)
    if kind == "main":
        return _replay_main(args)
    _, recipes = _discover()
    r = _find_recipe(args["class"], args.get("config", ""))
    extra = _extra_frames(recipes)
    want = args.get("clause", "state")
    msgs = []
    for v, n in [(v, n) for v in range(len(r.variants)) for n in (12, 3)]:
        res = _one_roundtrip(r, "real", n, int(args.get("seed", 0)), extra, tolerant=False, variant=v)
        rname = r.name + ("{%s}" % res["variant"] if res["variant"] else "")
        if want == "restart_ok":
            if res["raised"]:
                return False, "%s: after %d rounds of the real mutators, load_state_dict(J(state_dict())) raised %s at %s" % (rname, n, res["raised"], res.get("where"))
        else:
            if res["raised"] and res["raised"].startswith("KeyError"):
                res2 = _one_roundtrip(r, "real", n, int(args.get("seed", 0)), extra, tolerant=True, variant=v)
                if res2["diffs"]:
                    return False, "%s: after %d rounds of the real mutators load raised %s; with the missing key(s) %s ignored these fields are still not restored: %s" % (
                        rname, n, res["raised"], res2["missing_keys"], res2["diffs"][:6])
                if res["diffs"]:
                    msgs.append("only the KeyError prevents the restore: %s" % res["diffs"][:3])
                    continue
            if res["diffs"]:
                return False, "%s: after %d rounds of the real mutators these fields differ after the restart: %s" % (rname, n, res["diffs"][:6])
    return True, "%s: not reproduced with reached states (%s)" % (r.name, "; ".join(msgs) or "all fields restored")


def _copy_only(cls, fr_own):
    reps = sh.copy_only_report(cls, fr_own)
    worst = "straight-line"
    for r in reps:
        if r["kind"] == "value-dependent":
            worst = "value-dependent"
        elif r["kind"] == "config-branching" and worst == "straight-line":
            worst = "config-branching"
    return worst, reps


def ob_roundtrip(clsname, label, clause, seed, must_fail=False):
    """clause: 'restart_ok' | 'state'"""
    def fn():
        _, recipes = _discover()
        r = _find_recipe(clsname, label)
        extra = _extra_frames(recipes)
        failures, fields, nsent, frames = [], 0, 0, None
        for v, n in [(v, n) for v in range(len(r.variants)) for n in WARM]:
            res = _one_roundtrip(r, "spec", n, seed, extra, variant=v)
            vl = res["variant"]
            fields = max(fields, len(res["frame"]) + len(res["held"]) + len(res["delegated"]))
            nsent += res["sentinels"]
            frames = res
            if clause == "restart_ok":
                if res["raised"]:
                    failures.append({"variant": vl, "warm": n, "raised": res["raised"], "where": res.get("where"), "saved_keys": res.get("saved_keys")})
            else:
                if res["raised"] and res["raised"].startswith("KeyError"):
                    res = _one_roundtrip(r, "spec", n, seed, extra, tolerant=True, variant=v)
                    if res["raised"] or res["diffs"]:
                        failures.append({"variant": vl, "warm": n, "raised": res["raised"], "ignored_missing_keys": res["missing_keys"], "not_restored": res["diffs"][:12]})
                elif res["raised"] or res["diffs"]:
                    failures.append({"variant": vl, "warm": n, "raised": res["raised"], "not_restored": res["diffs"][:12]})
        if fields == 0:
            raise Undecided("%s: empty frame (nothing to round-trip) - vacuous" % r.name)
        worst, reps = _copy_only(r.cls, frames["frame"])
        if failures:
            wit = {"class": clsname, "config": label, "clause": clause, "seed": seed, "failures": failures[:3],
                   "frame": frames["frame"], "held": frames["held"], "delegated": frames["delegated"]}
            ok, msg = replay_roundtrip({"class": clsname, "config": label, "clause": clause, "seed": seed})
            wit["replay_message"] = msg
            first = failures[0]
            detail = "%s %s: %s" % (r.name, clause, first.get("raised") or "; ".join(first.get("not_restored", [])[:4]))
            if clause == "state" and first.get("not_restored"):
                detail = "%s state not restored: %s" % (r.name, "; ".join(first["not_restored"][:4]))
            raise Refuted(detail, witness=wit,
                          replay={"kind": "custom", "contract": "C17", "func": "replay_roundtrip",
                                  "args": {"class": clsname, "config": label, "clause": clause, "seed": seed}},
                          confirmed=not ok)
        if worst == "value-dependent":
            raise Undecided("%s: save/load bodies are not copy-only (%s); the sentinel run does not generalise" % (
                r.name, [x for x in reps if x["kind"] == "value-dependent"]))
        arith = [a for x in reps for a in x["arithmetic"]]
        if arith:
            raise Undecided("%s: save/load bodies compute on the copied values (%s); the sentinel run does not generalise" % (r.name, arith))
        return {"backend": "heap-enum", "fields": fields, "sentinels": nsent, "bodies": worst,
                "frame": frames["frame"], "held": frames["held"], "delegated": frames["delegated"], "transient": frames["transient"],
                "variants": [v for v, _ in r.variants],
                "statement": "forall state of %s (configurations %s, warm-up lengths %s): B.load_state_dict(J(A.state_dict())) %s" % (
                    r.name, [v for v, _ in r.variants], list(WARM), "does not raise" if clause == "restart_ok" else "makes frame(B) == frame(A)")}
    return fn


# ------------------------------------------------------------------------------------------
# continuation: the restarted object, driven further, behaves as the uninterrupted one (bounded)
# ------------------------------------------------------------------------------------------
def _sync_collaborators(a, b, enc, dec, root=True, depth=0, seen=None):
    """what the REST of a checkpoint restores for the object under test: parameter values (the parameter section) and
    stateful collaborators (through their own state_dict/load_state_dict pair and the real JSON path)."""
    seen = set() if seen is None else seen
    if id(a) in seen or depth > 4 or a is None or b is None:
        return
    seen.add(id(a))
    if isinstance(a, (list, tuple)) and isinstance(b, (list, tuple)):
        for x, y in zip(a, b):
            _sync_collaborators(x, y, enc, dec, False, depth + 1, seen)
        return
    if isinstance(a, dict) and isinstance(b, dict):
        for k in a:
            if k in b:
                _sync_collaborators(a[k], b[k], enc, dec, False, depth + 1, seen)
        return
    if hasattr(a, "tensor") and hasattr(a, "fire_parameter_changed") and hasattr(b, "tensor"):
        # in place: other collaborators (torch optimisers) hold the tensor object itself, as after a real restart where
        # the parameters are rebuilt from the checkpoint before anything else refers to them
        t = sh.json_roundtrip(a.tensor.detach().clone(), enc, dec)
        if tuple(b.tensor.shape) == tuple(t.shape) and b.tensor.dtype == t.dtype:
            with torch.no_grad():
                b.tensor.copy_(t)
            b.fire_parameter_changed()
        else:
            b.tensor = t
        return
    if not root and hasattr(a, "state_dict") and hasattr(b, "load_state_dict") and type(a).__module__.split(".")[0] != "torch":
        b.load_state_dict(sh.json_roundtrip(a.state_dict(), enc, dec))
        return
    if sh.is_plain_object(a) and sh.is_plain_object(b):
        for k, v in a.__dict__.items():
            if k in b.__dict__:
                _sync_collaborators(v, b.__dict__[k], enc, dec, False, depth + 1, seen)


CONTINUE = ((3, 1), (3, 6), (12, 5), (0, 4))


def _continue_once(recipe, variant, n_warm, k_more, seed):
    import random
    enc, dec = sh.json_path()
    vlabel, make = recipe.variants[variant]
    with _default_dtype(recipe.dtypes[variant]):
        torch.manual_seed(1000 + seed)
        random.seed(1000 + seed)
        A = _quiet(make, "real", sh.Sentinels(seed))
        B = _quiet(make, "real", sh.Sentinels(seed + 77))
        if n_warm:
            _quiet(recipe.warm, A, n_warm)
        s2 = sh.json_roundtrip(A.state_dict(), enc, dec)
        _sync_collaborators(A, B, enc, dec)
        _quiet(B.load_state_dict, s2)
        out = []
        for obj in (A, B):
            torch.manual_seed(2000 + seed)
            random.seed(2000 + seed)
            _quiet(recipe.warm, obj, k_more)
        trans = _transient(recipe.cls)
        da, db = dict(A.__dict__), dict(B.__dict__)
        for f in sorted(set(da) | set(db)):
            if f in trans or callable(da.get(f)) and not hasattr(da.get(f), "__dict__") or inspect.isfunction(da.get(f)):
                continue
            sh.same(da.get(f, sh.MISSING), db.get(f, sh.MISSING), f, out, tuple_is_list=True)
        return vlabel, out


def replay_continue(args):
    r = _find_recipe(args["class"], args.get("config", ""))
    vl, diffs = _continue_once(r, int(args["variant"]), int(args["warm"]), int(args["more"]), int(args.get("seed", 0)))
    if diffs:
        return False, "%s{%s}: restarted after %d rounds and driven %d more rounds with the same inputs, the restarted object differs from the uninterrupted one: %s" % (
            r.name, vl, args["warm"], args["more"], diffs[:6])
    return True, "%s{%s}: the restarted object follows the uninterrupted one" % (r.name, vl)


def ob_continue(clsname, label, seed):
    def fn():
        r = _find_recipe(clsname, label)
        if r.warm is None:
            raise Undecided("%s: no driver for the real mutators" % r.name)
        n = 0
        for v in range(len(r.variants)):
            for n_warm, k_more in CONTINUE:
                try:
                    vl, diffs = _continue_once(r, v, n_warm, k_more, seed)
                except Exception as e:
                    if _raised_in_repo(e):
                        raise Refuted("%s{%s}: restart after %d rounds then %d more rounds raised %s: %s" % (r.name, r.variants[v][0], n_warm, k_more, type(e).__name__, e),
                                      witness={"class": clsname, "config": label, "variant": v, "warm": n_warm, "more": k_more, "where": traceback.format_exc().splitlines()[-4:]},
                                      replay={"kind": "custom", "contract": "C17", "func": "replay_continue",
                                              "args": {"class": clsname, "config": label, "variant": v, "warm": n_warm, "more": k_more, "seed": seed}}, confirmed=True)
                    raise
                n += 1
                if diffs:
                    raise Refuted("%s{%s}: restarted after %d rounds and driven %d more rounds with the same inputs and random stream, the restarted object no longer equals the uninterrupted one: %s" % (
                        r.name, vl, n_warm, k_more, "; ".join(diffs[:4])),
                        witness={"class": clsname, "config": label, "variant": v, "warm": n_warm, "more": k_more, "diffs": diffs[:12]},
                        replay={"kind": "custom", "contract": "C17", "func": "replay_continue",
                                "args": {"class": clsname, "config": label, "variant": v, "warm": n_warm, "more": k_more, "seed": seed}}, confirmed=True)
        return {"backend": "enum", "cases": n, "bounded": "warm-up/continuation lengths %s, the recipes' acceptance sequences" % (list(CONTINUE),),
                "statement": "%s (configurations %s): the object restored from J(state_dict()) - collaborators restored through their own pairs - and the uninterrupted object, "
                             "driven by the same further rounds of the real mutators, end with equal fields" % (r.name, [v for v, _ in r.variants])}
    return fn


# ------------------------------------------------------------------------------------------
# must-fail twins (vacuity): real classes with one defect injected by subclassing
# ------------------------------------------------------------------------------------------
def _twins():
    if "twins" in _CACHE:
        return _CACHE["twins"]
    from torchtree.inference.hmc import adaptation as ad
    from torchtree.inference.mcmc import operator as mo

    class TwinSkipsField(mo.ScalerOperator):
        def _load_state_dict(self, state_dict):
            pass

    class TwinSwapsKeys(mo.SlidingWindowOperator):
        def state_dict(self):
            d = super().state_dict()
            d["accept"], d["reject"] = d["reject"], d["accept"]
            return d

    class TwinReadsUnknownKey(ad.AdaptiveStepSize):
        def load_state_dict(self, state_dict):
            self._call_counter = state_dict["call_counter"]
            self._accepted = state_dict["never_written"]

    class TwinDropsWindow(mo.ScalerOperator):
        def load_state_dict(self, state_dict):
            self._adapt_count = state_dict["adapt_count"]
            self._accept = state_dict["accept"]
            self._reject = state_dict["reject"]
            self._load_state_dict(state_dict)

    tw = {
        "TwinSkipsField": Recipe(TwinSkipsField, "", lambda mode, sent: TwinSkipsField("op", _params(), 1.0, 0.24, 0.6), _warm_operator(True)),
        "TwinSwapsKeys": Recipe(TwinSwapsKeys, "", lambda mode, sent: TwinSwapsKeys("op", _params(), 1.0, 0.24, 0.4), _warm_operator(True)),
        "TwinReadsUnknownKey": Recipe(TwinReadsUnknownKey, "", lambda mode, sent: TwinReadsUnknownKey("a", _integrator(), 0.8), _warm_adaptor),
        "TwinDropsWindow": Recipe(TwinDropsWindow, "", lambda mode, sent: TwinDropsWindow("op", _params(), 1.0, 0.24, 0.6), _warm_operator(True)),
    }
    _CACHE["twins"] = tw
    return tw


def ob_must_fail(inner, what):
    """discharged iff the inner obligation is refuted AND its replay reproduces on the real machinery"""
    def fn():
        try:
            inner()
        except Refuted as e:
            if not e.confirmed:
                raise Undecided("must-fail twin refuted but replay did not reproduce: %s" % e.detail)
            return {"backend": "heap-enum", "trivial": False, "statement": "must-fail twin refuted as required: " + e.detail[:160]}
        # a failed guard says the checker is blind, not that the property is violated
        raise Undecided("vacuity guard failed: the must-fail twin (%s) was NOT refuted - the round-trip obligation cannot detect this defect" % what)
    return fn


# ==========================================================================================
# C17.counter - a resumed run continues with the next iteration
# ==========================================================================================
class _Crash(Exception):
    """the process dies right after a checkpoint has been written"""


def _loop_order(fn, save_name="save_full_state", counter="_epoch"):
    """AST fact about the run loop: position of the checkpoint call relative to the counter increment"""
    tree = ast.parse(textwrap.dedent(inspect.getsource(fn)))
    for node in ast.walk(tree):
        if isinstance(node, ast.While) and any(isinstance(n, ast.Attribute) and n.attr == counter for n in ast.walk(node.test)):
            i_save = i_inc = None
            for i, st in enumerate(node.body):
                for n in ast.walk(st):
                    if isinstance(n, ast.Call) and isinstance(n.func, ast.Attribute) and n.func.attr == save_name and i_save is None:
                        i_save = i
                    if isinstance(n, ast.AugAssign) and isinstance(n.target, ast.Attribute) and n.target.attr == counter and i_inc is None:
                        i_inc = i
            return {"loop_test": ast.unparse(node.test), "save_stmt": i_save, "increment_stmt": i_inc,
                    "order": None if i_save is None or i_inc is None else ("save-before-increment" if i_save < i_inc else "increment-before-save")}
    return None


def _mcmc_world(N, freq, trace, rows, sink, crash_at, start_entry):
    """real MCMC + real SlidingWindowOperator subclass with a deterministic proposal (+1, always accepted)"""
    import torchtree.inference.mcmc.mcmc as mm
    from torchtree.core.parameter import Parameter
    from torchtree.inference.mcmc.operator import SlidingWindowOperator

    p = Parameter.from_json(start_entry, {})
    holder = {}

    class PlusOne(SlidingWindowOperator):
        def _step(self):
            q = self.parameters[0]
            q.tensor = q.tensor + 1.0
            trace.append((holder["mcmc"]._epoch, q.tensor.item()))
            return torch.tensor(0.0)

    class Rows:
        def initialize(self):
            rows.append("initialize")

        def log(self, sample):
            rows.append((sample, p.tensor.item()))

        def close(self):
            rows.append("close")

    op = PlusOne("op", [p], 1.0, 0.24, 0.5)
    mcmc = mm.MCMC("mcmc", lambda: p.tensor.sum(), [op], N, loggers=[Rows()], checkpoint="ck.json", checkpoint_frequency=freq, every=0)
    holder["mcmc"] = mcmc
    return mm, mcmc, p


def _optim_world(N, freq, trace, rows, sink, crash_at, start_entry, closure):
    """real Optimizer with a deterministic stand-in for the torch optimiser (step: +1); JSON-stable state"""
    import torchtree.optim.optimizer as om
    from torchtree.core.parameter import Parameter

    p = Parameter.from_json(start_entry, {})
    holder = {}

    class PlusOne:
        def __init__(self):
            self.n = 0

        def zero_grad(self):
            if p.tensor.grad is not None:
                p.tensor.grad.zero_()

        def step(self, closure=None):
            if closure is not None:
                closure()
            with torch.no_grad():
                p.tensor.add_(1.0)
            self.n += 1
            trace.append((holder["opt"]._epoch, p.tensor.item()))

        def state_dict(self):
            return {"state": {0: {"func_evals": self.n, "n_iter": self.n}}, "param_groups": []}

        def load_state_dict(self, d):
            st = d["state"]
            self.n = (st[0] if 0 in st else st["0"])["n_iter"]

    class Rows:
        def initialize(self):
            rows.append("initialize")

        def __call__(self, sample):
            rows.append((sample, p.tensor.item()))

        def close(self):
            rows.append("close")

    opt = om.Optimizer("optimizer", [p], lambda: -((p.tensor - 100.0) ** 2).sum(), PlusOne(), N, loggers=[Rows()],
                       checkpoint="ck.json", checkpoint_frequency=freq)
    holder["opt"] = opt
    opt.run = opt._run_closure if closure else opt._run
    return om, opt, p


def _interrupt_and_resume(kind, N, freq, k):
    """returns dict(uninterrupted, before, resumed, expected_resumed, saved_iteration)"""
    from torchtree.core.utils import update_parameters
    enc, dec = sh.json_path()
    entry0 = {"id": "x", "type": "Parameter", "tensor": [0.0]}

    def world(trace, rows, sink, crash_at, entry):
        if kind == "MCMC":
            return _mcmc_world(N, freq, trace, rows, sink, crash_at, entry)
        return _optim_world(N, freq, trace, rows, sink, crash_at, entry, closure=(kind == "Optimizer._run_closure"))

    def run(trace, rows, crash_at, entry, state=None):
        sink = []
        mod, algo, p = world(trace, rows, sink, crash_at, entry)

        def capture(file_name, parameters, *a, **kw):  # stands for save_parameters (C18 covers the file system)
            sink.append(json.dumps(parameters, cls=enc, indent=2))
            if crash_at is not None and len(sink) == crash_at // freq:   # the checkpoint of iteration crash_at
                raise _Crash()
        orig = mod.save_parameters
        mod.save_parameters = capture
        try:
            if state is not None:
                algo.load_state_dict(state)
            try:
                _quiet(algo.run)
            except _Crash:
                pass
        finally:
            mod.save_parameters = orig
        return sink

    T, rows_u = [], []
    run(T, rows_u, None, dict(entry0))
    before, rows_b = [], []
    sink = run(before, rows_b, k, dict(entry0))
    if not sink:
        raise Undecided("no checkpoint was written at iteration %d" % k)
    ck = json.loads(sink[-1], cls=dec)          # what main() reads
    tensors, others = sh.split_checkpoint(ck)
    config = [dict(entry0)]
    update_parameters(config, tensors)
    resumed, rows_r = [], []
    aid = "mcmc" if kind == "MCMC" else "optimizer"
    run(resumed, rows_r, None, config[0], state=others[aid])
    return {"kind": kind, "N": N, "frequency": freq, "checkpoint_at": k, "saved_iteration": others[aid]["iteration"],
            "uninterrupted": T, "before_crash": before, "resumed": resumed, "expected_resumed": T[k:],
            "log_rows_resumed": [r for r in rows_r if isinstance(r, tuple)][:4]}


def _counter_grid(tier):
    grid = []
    for N in ((4, 6) if tier == "quick" else (3, 4, 5, 6)):
        for freq in (1, 2, 3):
            for k in range(freq, N + 1, freq):
                grid.append((N, freq, k))
    return grid


def _replay_counter(args):
    r = _interrupt_and_resume(args["target"], args["N"], args["frequency"], args["checkpoint_at"])
    if r["resumed"] != r["expected_resumed"] or r["before_crash"] != r["uninterrupted"][:r["checkpoint_at"]]:
        return False, ("%s: N=%d, checkpoint every %d, killed after the checkpoint of iteration %d (saved iteration=%s). "
                       "uninterrupted transitions (iteration, state) = %s; resumed run performs %s instead of %s" % (
                           r["kind"], r["N"], r["frequency"], r["checkpoint_at"], r["saved_iteration"], r["uninterrupted"],
                           r["resumed"], r["expected_resumed"]))
    return True, "%s: resumed trace equals the uninterrupted one" % r["kind"]


def ob_counter(kind, tier):
    def fn():
        if kind == "MCMC":
            from torchtree.inference.mcmc.mcmc import MCMC
            order = _loop_order(MCMC.run)
        else:
            from torchtree.optim.optimizer import Optimizer
            order = _loop_order(getattr(Optimizer, kind.split(".")[1]))
        if order is None or order["order"] is None:
            raise Undecided("run loop of %s: checkpoint call / counter increment not located (%s)" % (kind, order))
        bad, n = [], 0
        for N, freq, k in _counter_grid(tier):
            r = _interrupt_and_resume(kind, N, freq, k)
            n += 1
            if r["before_crash"] != r["uninterrupted"][:k]:
                raise Undecided("harness: the interrupted run differs from the uninterrupted prefix")
            if r["resumed"] != r["expected_resumed"]:
                bad.append(r)
        if bad:
            r = next((b for b in bad if b["frequency"] == 2 and b["checkpoint_at"] == 2), bad[0])
            args = {"kind": "counter", "target": kind, "N": r["N"], "frequency": r["frequency"], "checkpoint_at": r["checkpoint_at"]}
            ok, msg = _replay_counter(args)
            wit = dict(r)
            wit.update(loop=order, failing_cases=len(bad), cases=n, replay_message=msg)
            raise Refuted("%s: checkpoint of iteration k stores iteration=%s (%s); the resumed run repeats iteration k: %d transitions "
                          "instead of %d after the restart, final state %s instead of %s" % (
                              kind, r["saved_iteration"], order["order"], len(r["resumed"]), len(r["expected_resumed"]),
                              r["resumed"][-1][1] if r["resumed"] else None, r["uninterrupted"][-1][1]),
                          witness=wit, replay={"kind": "custom", "contract": "C17", "func": "replay_roundtrip", "args": args},
                          confirmed=not ok)
        return {"backend": "loop-interrupt", "cases": n, "loop": order,
                "statement": "forall N, frequency, k (grid of %d): real %s interrupted after the checkpoint of iteration k and resumed through "
                             "J/update_parameters/load_state_dict performs exactly the transitions k+1..N of the uninterrupted run" % (n, kind)}
    return fn


# ==========================================================================================
# C17.codec
# ==========================================================================================
_DTYPES = {"float32": torch.float32, "float64": torch.float64, "int64": torch.int64, "bool": torch.bool}
_SHAPES = [(), (1,), (3,), (0,), (2, 3), (1, 1), (2, 0), (2, 3, 2), (1, 2, 0), (3, 1, 1)]
_LEADING_ZERO = [(0, 3), (0, 2, 2), (2, 0, 3)]


def _special(dtype, shape, gen):
    n = 1
    for s in shape:
        n *= s
    if dtype == torch.bool:
        return torch.rand(shape, generator=gen) > 0.5
    if dtype == torch.int64:
        t = torch.randint(-2 ** 40, 2 ** 40, shape, generator=gen)
        flat = t.reshape(-1)
        for i, v in enumerate((2 ** 63 - 1, -2 ** 63, 2 ** 53 + 1, 0)[:n]):
            flat[i] = v
        return flat.reshape(shape)
    t = torch.randn(shape, generator=gen, dtype=torch.float64).to(dtype)
    flat = t.reshape(-1)
    fi = torch.finfo(dtype)
    for i, v in enumerate((float("inf"), float("nan"), -0.0, fi.tiny / 4, fi.max, 0.1, 1e-30)[:n]):
        flat[i] = v
    return flat.reshape(shape)


def _codec_once(t):
    from torchtree.core.utils import TensorDecoder, TensorEncoder
    text = json.dumps({"k": [t]}, cls=TensorEncoder)
    back = json.loads(text, cls=TensorDecoder)["k"][0]
    d = sh.same(t, back, "tensor")
    if not d and t.dtype.is_floating_point and t.numel():
        # typed equality treats NaN == NaN; also compare the sign of zeros bit-exactly
        if not torch.equal(torch.signbit(t), torch.signbit(back)):
            d.append("tensor: sign bits differ")
    return d, text


def _replay_codec(args):
    if args.get("what") == "tensor":
        gen = torch.Generator().manual_seed(int(args["seed"]))
        t = _special(_DTYPES[args["dtype"]], tuple(args["shape"]), gen)
        if args.get("nn"):
            t = torch.nn.Parameter(t, requires_grad=t.dtype.is_floating_point)
        d, text = _codec_once(t)
        return (not d), "TensorDecoder(TensorEncoder(t)) for dtype=%s shape=%s nn=%s: %s" % (args["dtype"], args["shape"], args.get("nn"), d or "identical")
    if args.get("what") == "parameter":
        d = _parameter_once(args["entry"], args["dtype"], args["nn"], int(args["seed"]))
        return (not d), "ParameterEncoder -> update_parameters -> Parameter.from_json on %s: %s" % (args["entry"], d or "identical")
    if args.get("what") == "update_parameters":
        bad, n, obs = _update_parameters_enum(int(args.get("depth", 3)))
        return (not bad), "update_parameters vs specification on %d trees: %s" % (n, bad[:2] or "identical")
    return True, "unknown codec replay"


def ob_codec_tensor(dname, seed):
    def fn():
        dtype = _DTYPES[dname]
        n, observed = 0, []
        for shape in _SHAPES:
            for nn in ((False, True) if dtype.is_floating_point else (False,)):
                for rep in range(2):
                    s = seed * 1000 + n
                    g = torch.Generator().manual_seed(s)
                    t = _special(dtype, shape, g)
                    if nn:
                        t = torch.nn.Parameter(t, requires_grad=True)
                    d, text = _codec_once(t)
                    n += 1
                    if d:
                        args = {"kind": "codec", "what": "tensor", "dtype": dname, "shape": list(shape), "nn": nn, "seed": s}
                        ok, msg = _replay_codec(args)
                        raise Refuted("TensorDecoder(TensorEncoder(t)) != t: %s" % d[:3], witness=dict(args, json=text[:400], diffs=d[:6]),
                                      replay={"kind": "custom", "contract": "C17", "func": "replay_roundtrip", "args": args}, confirmed=not ok)
        for shape in _LEADING_ZERO:
            d, _ = _codec_once(torch.zeros(shape, dtype=dtype))
            observed.append({"shape": list(shape), "decoded": d[:1] or "identical"})
        return {"backend": "enum", "cases": n, "outside_domain_observed": observed,
                "statement": "forall t of dtype %s, rank 0..3 (incl. empty with a zero trailing extent), tensor or nn.Parameter, incl. inf/nan/-0/subnormal/"
                             "extreme values: TensorDecoder(TensorEncoder(t)) has the same values, dtype, shape and nn.Parameter-ness" % dname}
    return fn


_ENTRY_FORMS = {
    "tensor": lambda vals: {"tensor": vals},
    "full": lambda vals: {"full": [len(vals)], "tensor": 0.5},
    "zeros": lambda vals: {"zeros": [len(vals)]},
    "ones": lambda vals: {"ones": len(vals)},
    "full_like": lambda vals: {"full_like": {"id": "other", "type": "Parameter", "tensor": vals}, "tensor": 0.25},
    "tensor+dimension": lambda vals: {"tensor": vals[:1], "dimension": len(vals)},
    # the dtype is INHERITED from the referenced parameter (the entry itself has no dtype key)
    "full_like(float32 parameter)": lambda vals: {"full_like": {"id": "other", "type": "Parameter", "tensor": vals, "dtype": "torch.float32"}, "tensor": 0.25},
    "zeros_like(float32 parameter)": lambda vals: {"zeros_like": {"id": "other", "type": "Parameter", "tensor": vals, "dtype": "torch.float32"}},
}


def _parameter_once(form, dname, nn, seed):
    """the original run builds the parameter from its configuration entry, moves it, writes a checkpoint; the restart
    patches the configuration with update_parameters and builds the parameter again"""
    from torchtree.core.parameter import Parameter
    from torchtree.core.parameter_encoder import ParameterEncoder
    from torchtree.core.utils import TensorDecoder, update_parameters
    gen = torch.Generator().manual_seed(seed)
    vals = [0.5, 1.5, 2.5]
    entry = {"id": "theta", "type": "Parameter"}
    entry.update(_ENTRY_FORMS[form](vals))
    if dname != "default":
        entry["dtype"] = "torch." + dname
    if nn:
        entry["nn"] = True
    config = [{"id": "model", "type": "Something", "x": json.loads(json.dumps(entry)), "others": [1, "theta", {"k": None}]}]
    p0 = Parameter.from_json(json.loads(json.dumps(entry)), {})
    moved = (torch.randn(p0.tensor.shape, generator=gen, dtype=torch.float64) * 3).to(p0.tensor.dtype)
    p0.tensor = torch.nn.Parameter(moved) if isinstance(p0.tensor, torch.nn.Parameter) else moved
    ck = json.loads(json.dumps([{"id": "algo", "type": "MCMC", "iteration": 1}, p0], cls=ParameterEncoder, indent=2), cls=TensorDecoder)
    tensors, others = sh.split_checkpoint(ck)
    update_parameters(config, tensors)
    p1 = Parameter.from_json(config[0]["x"], {})
    d = sh.same(p0.id, p1.id, "id") + sh.same(p0.tensor, p1.tensor, "tensor")
    if config[0]["others"] != [1, "theta", {"k": None}] or config[0]["id"] != "model":
        d.append("update_parameters changed something that is not a parameter entry")
    return d


def ob_codec_parameter(seed):
    def fn():
        n = 0
        for form in _ENTRY_FORMS:
            for dname in ("default", "float32", "float64"):
                for nn in (False, True):
                    if form.startswith(("full_like", "zeros_like")) and dname != "default":
                        continue  # *_like takes the dtype of the referenced parameter, not of the entry
                    d = _parameter_once(form, dname, nn, seed + n)
                    n += 1
                    if d:
                        args = {"kind": "codec", "what": "parameter", "entry": form, "dtype": dname, "nn": nn, "seed": seed + n - 1}
                        ok, msg = _replay_codec(args)
                        raise Refuted("Parameter not restored through ParameterEncoder/update_parameters/from_json (%s, %s, nn=%s): %s" % (form, dname, nn, d[:3]),
                                      witness=dict(args, diffs=d[:6]), replay={"kind": "custom", "contract": "C17", "func": "replay_roundtrip", "args": args},
                                      confirmed=not ok)
        return {"backend": "enum", "cases": n,
                "statement": "forall configuration entry forms %s x dtype key absent/float32/float64 x nn: the parameter rebuilt from the configuration patched by "
                             "update_parameters(checkpoint) has the id, dtype, nn.Parameter-ness, shape and values it had when the checkpoint was written" % sorted(_ENTRY_FORMS)}
    return fn


def _spec_update(tree, ck):
    """specification of update_parameters written from its docstring ('recursively replace tensor in json_object with
    tensors present in parameters'), as a pure function returning the new tree"""
    if isinstance(tree, list):
        return [_spec_update(e, ck) for e in tree]
    if isinstance(tree, dict):
        if tree.get("type") in ("torchtree.core.parameter.Parameter", "torchtree.Parameter", "Parameter"):
            if tree["id"] in ck:
                new = {k: v for k, v in tree.items() if k in ("id", "type", "dtype", "nn")}
                new["tensor"] = ck[tree["id"]]["tensor"]
                # "parameter values with their dtypes": the dtype the checkpoint recorded (it may have been inherited through a construction key)
                if "dtype" in ck[tree["id"]]:
                    new["dtype"] = ck[tree["id"]]["dtype"]
                return new
            return tree
        return {k: _spec_update(v, ck) for k, v in tree.items()}
    return tree


def _trees(depth):
    leaves = [3, "in1", None,
              {"id": "in1", "type": "Parameter", "tensor": [1.0], "dtype": "torch.float64"},
              {"id": "in2", "type": "torchtree.Parameter", "full": [2], "value": 0.1, "nn": True},
              {"id": "out", "type": "Parameter", "tensor": [9.0]},
              {"id": "in1", "type": "NotAParameter", "tensor": [7.0]},
              {}, []]
    if depth == 0:
        return leaves
    sub = _trees(depth - 1)
    pick = sub[:: max(1, len(sub) // 7)][:8] + leaves[3:6]
    out = list(leaves)
    for a in pick:
        out.append([a])
        out.append({"k": a})
        out.append({"id": "m", "type": "Model", "child": a})
    for a in pick[:5]:
        for b in pick[-4:]:
            out.append([a, b])
            out.append({"l": a, "r": b})
    return out


def _update_parameters_enum(depth):
    from torchtree.core.utils import update_parameters
    ck = {"in1": {"id": "in1", "type": "torchtree.Parameter", "tensor": [11.0, 12.0], "dtype": "torch.float64", "nn": False},
          "in2": {"id": "in2", "type": "torchtree.Parameter", "tensor": [21.0], "dtype": "torch.float32", "nn": True}}
    bad, n = [], 0
    for t in _trees(depth):
        got = json.loads(json.dumps(t))
        want = _spec_update(json.loads(json.dumps(t)), ck)
        update_parameters(got, ck)
        n += 1
        if got != want:
            bad.append({"tree": t, "got": got, "want": want})
    # observation (outside the stated domain): a parameter defined inline inside another parameter entry
    nested = {"id": "outer", "type": "Parameter", "full_like": {"id": "in1", "type": "Parameter", "tensor": [1.0, 2.0]}, "tensor": 0.0}
    g = json.loads(json.dumps(nested))
    update_parameters(g, ck)
    obs = {"inline definition of 'in1' inside parameter 'outer' (not in the checkpoint)": "inner entry %s" % ("updated" if g["full_like"]["tensor"] == [11.0, 12.0] else "NOT updated")}
    return bad, n, obs


def ob_codec_update(tier):
    def fn():
        from torchtree.core import utils
        # structural induction: the only recursive calls are on the elements of a list and on the values of a
        # non-parameter dict (checked on the AST); base cases and the two inductive steps are then run against the spec
        fn_ast = ast.parse(textwrap.dedent(inspect.getsource(utils.update_parameters))).body[0]
        rec = [ast.unparse(n) for n in ast.walk(fn_ast) if isinstance(n, ast.Call) and isinstance(n.func, ast.Name) and n.func.id == "update_parameters"]
        # structurally (local names are not part of it): exactly two recursive calls, each `update_parameters(<target of the enclosing for>, <2nd parameter>)`,
        # one loop over the object itself (list elements), one over <object>.values() (dict values)
        p0, p1 = [a.arg for a in fn_ast.args.args][:2]
        shapes = []
        for loop in [n for n in ast.walk(fn_ast) if isinstance(n, ast.For)]:
            for st in loop.body:
                c = st.value if isinstance(st, ast.Expr) else None
                if isinstance(c, ast.Call) and isinstance(c.func, ast.Name) and c.func.id == "update_parameters":
                    ok_args = len(c.args) == 2 and not c.keywords and isinstance(loop.target, ast.Name) and isinstance(c.args[0], ast.Name) \
                        and c.args[0].id == loop.target.id and isinstance(c.args[1], ast.Name) and c.args[1].id == p1
                    it = ast.unparse(loop.iter)
                    shapes.append("elements" if ok_args and it == p0 else "values" if ok_args and it == p0 + ".values()" else "other:" + ast.unparse(c))
        if sorted(shapes) != ["elements", "values"] or len(rec) != 2:
            raise Undecided("update_parameters: recursion scheme changed (%s / %s); the induction argument must be re-stated" % (rec, shapes))
        bad, n, obs = _update_parameters_enum(3 if tier == "thorough" else 2)
        if bad:
            args = {"kind": "codec", "what": "update_parameters", "depth": 3 if tier == "thorough" else 2}
            ok, msg = _replay_codec(args)
            raise Refuted("update_parameters differs from its specification on %d of %d trees, e.g. %s" % (len(bad), n, json.dumps(bad[0])[:300]),
                          witness=bad[0], replay={"kind": "custom", "contract": "C17", "func": "replay_roundtrip", "args": args}, confirmed=not ok)
        return {"backend": "structural-induction+enum", "cases": n, "recursive_calls": rec, "outside_domain_observed": obs,
                "statement": "update_parameters(tree, ck) == spec(tree, ck): base (scalar: unchanged; parameter dict with id in ck: construction keys dropped, "
                             "tensor := ck tensor, id/type/dtype/nn kept; parameter dict not in ck: unchanged), step (list: element-wise; other dict: value-wise, "
                             "keys untouched); recursion only on list elements / dict values (AST) => holds for every finite tree; cross-checked on %d trees" % n}
    return fn


# ==========================================================================================
# C17.optim - torch.optim state through the real Optimizer / JSON path (bounded stand-in, tag B)
# ==========================================================================================
# name -> (torch.optim class, its options, dtype[, scheduler]); scheduler: (torch.optim.lr_scheduler class, JSON options as a
# torchtree configuration would give them) - built through the real Scheduler.from_json; default StepLR
_OPTIMS = {
    "SGD+StepLR": ("SGD", {"lr": 0.05}, torch.float64),
    "SGD-momentum+StepLR": ("SGD", {"lr": 0.05, "momentum": 0.9}, torch.float64),
    "Adam+StepLR": ("Adam", {"lr": 0.1}, torch.float64),
    "Adam+StepLR,float32": ("Adam", {"lr": 0.1}, torch.float32),   # run inside C17.optim[Adam+StepLR]
    "LBFGS": ("LBFGS", {"lr": 0.5, "max_iter": 2, "history_size": 3}, torch.float64),
    "SGD+MultiStepLR": ("SGD", {"lr": 0.05}, torch.float64, ("MultiStepLR", {"milestones": [2, 4, 5], "gamma": 0.5})),
    "Adam+ExponentialLR": ("Adam", {"lr": 0.1}, torch.float64, ("ExponentialLR", {"gamma": 0.8})),
    "SGD+CosineAnnealingLR": ("SGD", {"lr": 0.05}, torch.float64, ("CosineAnnealingLR", {"T_max": 4})),
    "Adam+LambdaLR": ("Adam", {"lr": 0.1}, torch.float64, ("LambdaLR", {"lr_lambda": "lambda epoch: 1.0 / (1.0 + epoch)"})),
    "SGD+CyclicLR": ("SGD", {"lr": 0.05, "momentum": 0.5}, torch.float64, ("CyclicLR", {"base_lr": 0.01, "max_lr": 0.1, "step_size_up": 2})),
    "AdamW+StepLR": ("AdamW", {"lr": 0.1, "amsgrad": True}, torch.float64),
    "RMSprop+StepLR": ("RMSprop", {"lr": 0.05, "momentum": 0.5, "centered": True}, torch.float64),
    "Adagrad+StepLR": ("Adagrad", {"lr": 0.2}, torch.float64),
    "Adamax+StepLR": ("Adamax", {"lr": 0.1}, torch.float64),
    "Adadelta+StepLR": ("Adadelta", {"lr": 1.0}, torch.float64),
    "Rprop+StepLR": ("Rprop", {"lr": 0.05}, torch.float64),
    "NAdam+StepLR": ("NAdam", {"lr": 0.1}, torch.float64),
    "RAdam+StepLR": ("RAdam", {"lr": 0.1}, torch.float64),
    "ASGD+StepLR": ("ASGD", {"lr": 0.05}, torch.float64),
}


def _optim_world_real(name):
    from torchtree.optim.lr_scheduler import Scheduler
    from torchtree.optim.optimizer import Optimizer
    algo, opts, dtype = _OPTIMS[name][:3]
    sched_spec = _OPTIMS[name][3] if len(_OPTIMS[name]) > 3 else ("StepLR", {"step_size": 2, "gamma": 0.5})
    p = _P("theta", [1.0, -2.0, 3.0], dtype, nn=False)
    target = torch.tensor([0.5, 0.25, -1.0], dtype=dtype)
    scale = torch.tensor([1.0, 3.0, 0.5], dtype=dtype)

    def loss():  # maximised: a concave quadratic with a cubic ripple (so that LBFGS keeps a curvature history)
        d = p.tensor - target
        return -(scale * d * d).sum() - 0.1 * (d ** 4).sum()
    p.requires_grad = True
    o = getattr(torch.optim, algo)([p.tensor], **opts)
    sched = None
    if algo != "LBFGS":
        data = dict({"id": "scheduler", "type": "Scheduler", "scheduler": "torch.optim.lr_scheduler." + sched_spec[0]}, **sched_spec[1])
        sched = Scheduler.from_json(data, {}, optimizer=o)
    return p, Optimizer("optimizer", [p], loss, o, 0, scheduler=sched, checkpoint=None)


def _optim_case(name, n1=3, n2=3):
    """uninterrupted: n1 then n2 more iterations on the same objects. resumed: the state after n1 iterations (counter
    already at the next iteration, so C17.counter's defect does not interfere) -> real JSON path -> fresh objects -> n2"""
    from torchtree.core.utils import update_parameters
    enc, dec = sh.json_path()
    torch.manual_seed(0)
    pA, A = _optim_world_real(name)
    A.iterations = n1
    _quiet(A.run)
    st = {"id": A.id, "type": "Optimizer"}
    st.update(A.state_dict())
    ck = json.loads(json.dumps([st] + A.parameters, cls=enc, indent=2), cls=dec)
    tensors, others = sh.split_checkpoint(ck)
    pB, B = _optim_world_real(name)
    entry = [{"id": "theta", "type": "Parameter", "tensor": [1.0, -2.0, 3.0], "dtype": str(pA.tensor.dtype)}]
    update_parameters(entry, tensors)
    with torch.no_grad():
        pB.tensor.copy_(torch.tensor(entry[0]["tensor"], dtype=pA.tensor.dtype))
    err = None
    try:
        B.load_state_dict(others[A.id])
    except Exception as e:
        err = "%s: %s" % (type(e).__name__, e)
    diffs = sh.same(pA.tensor.detach(), pB.tensor.detach(), "parameter")
    diffs += sh.same(A._epoch, B._epoch, "_epoch")
    diffs += sh.same(A.optimizer.state_dict(), B.optimizer.state_dict(), "optimizer.state_dict()", tuple_is_list=True)
    lost = [i for g in B.optimizer.param_groups for i, q in enumerate(g["params"]) if q not in B.optimizer.state and A.optimizer.state]
    if lost:
        diffs.append("optimizer.state has no entry for parameter(s) %s after load_state_dict (keys present: %s)" % (
            lost, [k if not isinstance(k, torch.Tensor) else "<param>" for k in B.optimizer.state.keys()]))
    if A.scheduler is not None:
        diffs += sh.same(A.scheduler.state_dict(), B.scheduler.state_dict(), "scheduler.state_dict()", tuple_is_list=True)
    traj = None
    if err is None:
        A.iterations = B.iterations = n1 + n2
        try:
            _quiet(A.run)
            _quiet(B.run)
            traj = {"uninterrupted": pA.tensor.detach().tolist(), "resumed": pB.tensor.detach().tolist()}
            if not torch.equal(pA.tensor.detach(), pB.tensor.detach()):
                diffs.append("after %d more iterations: uninterrupted %s vs resumed %s" % (n2, traj["uninterrupted"], traj["resumed"]))
        except Exception as e:
            err = "continuing: %s: %s" % (type(e).__name__, e)
    return {"optim": name, "raised": err, "diffs": diffs, "trajectory": traj,
            "state_keys_after_json": sorted(map(repr, others[A.id]["optimizer"]["state"].keys()))}


def _replay_optim(args):
    r = _optim_case(args["optim"])
    if r["raised"] or r["diffs"]:
        return False, "real torch.optim %s through Optimizer.state_dict -> JSON -> load_state_dict: %s %s" % (r["optim"], r["raised"] or "", r["diffs"][:4])
    return True, "%s: state and continued trajectory identical" % r["optim"]


def ob_optim(name):
    def fn():
        r = _optim_case(name)
        if not (r["raised"] or r["diffs"]) and name + ",float32" in _OPTIMS:
            r = _optim_case(name + ",float32")
        if r["raised"] or r["diffs"]:
            args = {"kind": "optim", "optim": r["optim"]}
            ok, msg = _replay_optim(args)
            raise Refuted("torch.optim %s not restored: %s" % (name, r["raised"] or "; ".join(r["diffs"][:3])), witness=dict(r, replay_message=msg),
                          replay={"kind": "custom", "contract": "C17", "func": "replay_roundtrip", "args": args}, confirmed=not ok)
        return {"backend": "concrete (bounded)", "cases": 1,
                "statement": "%s on a 3-d objective: after 3 iterations, real state_dict -> JSON -> load_state_dict gives an equal optimiser/scheduler "
                             "state and 3 more iterations give bit-identical parameters (bounded stand-in)" % name}
    return fn


# ==========================================================================================
# C17.main - the real torchtree.torchtree.main() restarted from the checkpoint it wrote (tag B)
# ==========================================================================================
_DRIVER = r'''
import json, sys
sys.dont_write_bytecode = True
sys.path.insert(0, sys.argv.pop(1))
out = sys.argv.pop(1)
from torchtree.core.parameter_encoder import ParameterEncoder
from torchtree.inference.mcmc.mcmc import MCMC
from torchtree.optim.optimizer import Optimizer
seen = []
def wrap(cls):
    orig = cls.load_state_dict
    def load_state_dict(self, state_dict):
        orig(self, state_dict)
        st = {"id": self.id, "type": cls.__name__}
        st.update(self.state_dict())
        seen.append(json.loads(json.dumps([st] + list(self.parameters), cls=ParameterEncoder)))
    cls.load_state_dict = load_state_dict
wrap(MCMC); wrap(Optimizer)
from torchtree.torchtree import main
try:
    main()
finally:
    if out != "-":
        json.dump(seen, open(out, "w"))
'''


def _main_config(name, ck):
    joint = {"id": "joint", "type": "Distribution", "distribution": "torch.distributions.MultivariateNormal",
             "x": {"id": "x", "type": "Parameter", "tensor": [0.4, 0.7]},
             "parameters": {"loc": {"id": "loc", "type": "Parameter", "tensor": [1.0, 1.0]},
                            "covariance_matrix": {"id": "cov", "type": "Parameter", "tensor": [[1.0, 0.0], [0.0, 1.0]]}}}
    hmc = {"id": "hmc", "type": "HMCOperator", "joint": "joint", "parameters": ["x"],
           "integrator": {"id": "leap", "type": "LeapfrogIntegrator", "steps": 3, "step_size": 0.1},
           "mass_matrix": {"id": "mass", "type": "Parameter", "tensor": [1.0, 1.0]}}
    mcmc = {"id": "mcmc", "type": "MCMC", "joint": "joint", "iterations": 12, "checkpoint": ck, "checkpoint_frequency": 4, "every": 0}
    if name == "MCMC+Scaler+SlidingWindow":
        mcmc["operators"] = [{"id": "scale", "type": "ScalerOperator", "parameters": ["x"], "scaler": 0.7},
                             {"id": "slide", "type": "SlidingWindowOperator", "parameters": ["x"], "width": 0.5, "acceptance_window_length": 10}]
        return [joint, mcmc]
    if name == "MCMC+HMC+AdaptiveStepSize+MassMatrixAdaptor":
        hmc["adaptors"] = [{"id": "ass", "type": "AdaptiveStepSize", "integrator": "leap"},
                           {"id": "mma", "type": "MassMatrixAdaptor", "parameters": ["x"], "mass_matrix": "mass", "update_frequency": 2}]
        mcmc["operators"] = [hmc]
        return [joint, mcmc]
    if name == "MCMC+HMC+DualAveragingStepSize":
        hmc["adaptors"] = [{"id": "dass", "type": "DualAveragingStepSize", "integrator": "leap"}]
        mcmc["operators"] = [hmc]
        return [joint, mcmc]
    if name == "MCMC+HMC+find_reasonable_step_size":
        hmc["find_reasonable_step_size"] = True
        hmc["adaptors"] = [{"id": "ass", "type": "AdaptiveStepSize", "integrator": "leap"}]
        mcmc["operators"] = [hmc]
        return [joint, mcmc]
    if name == "MCMC+operators on a view and on a concatenation":
        # the operators act on derived parameters: what the checkpoint must carry is the underlying Parameter
        view = {"id": "x.head", "type": "ViewParameter", "parameter": "x", "indices": "0:1"}
        cat = {"id": "x.cat", "type": "CatParameter", "parameters": ["x", {"id": "y", "type": "Parameter", "tensor": [0.2]}]}
        prior_y = {"id": "py", "type": "Distribution", "distribution": "torch.distributions.Normal", "x": "y",
                   "parameters": {"loc": 0.0, "scale": 1.0}}
        mcmc["joint"] = {"id": "jj", "type": "JointDistributionModel", "distributions": ["joint", prior_y]}
        mcmc["operators"] = [{"id": "slide.view", "type": "SlidingWindowOperator", "parameters": ["x.head"], "width": 0.5},
                             {"id": "slide.cat", "type": "SlidingWindowOperator", "parameters": ["x.cat"], "width": 0.3}]
        return [joint, view, cat, mcmc]
    if name == "Optimizer+Adam+StepLR":
        return [joint, {"id": "opt", "type": "Optimizer", "algorithm": "torch.optim.Adam", "options": {"lr": 0.1}, "maximize": True, "loss": "joint",
                        "parameters": ["x"], "iterations": 12, "checkpoint": ck, "checkpoint_frequency": 4,
                        "scheduler": {"id": "sch", "type": "torchtree.optim.lr_scheduler.Scheduler", "scheduler": "torch.optim.lr_scheduler.StepLR", "step_size": 2, "gamma": 0.5}}]
    raise KeyError(name)


_MAIN = ["MCMC+Scaler+SlidingWindow", "MCMC+operators on a view and on a concatenation", "MCMC+HMC+AdaptiveStepSize+MassMatrixAdaptor", "MCMC+HMC+DualAveragingStepSize", "MCMC+HMC+find_reasonable_step_size",
         "Optimizer+Adam+StepLR"]


def _two_stage_case():
    """two algorithms with their own checkpoint files, restarted with two -c options (the option is `append`)"""
    import shutil
    import subprocess
    import sys
    import tempfile
    from vt.runner import REPO
    d = tempfile.mkdtemp(prefix="c17main2-")
    try:
        cka, ckb = os.path.join(d, "stage1.json"), os.path.join(d, "stage2.json")
        cfg = os.path.join(d, "config.json")

        def normal(id_, x, loc):
            return {"id": id_, "type": "Distribution", "distribution": "torch.distributions.Normal", "x": x,
                    "parameters": {"loc": loc, "scale": {"id": id_ + ".scale", "type": "Parameter", "tensor": [1.0, 1.0]}}}
        def joint(id_, d):
            return {"id": id_, "type": "JointDistributionModel", "distributions": [d]}
        conf = [joint("ja", normal("na", {"id": "a", "type": "Parameter", "tensor": [3.0, -2.0]}, {"id": "ja.loc", "type": "Parameter", "tensor": [0.0, 4.0]})),
                {"id": "opt1", "type": "Optimizer", "algorithm": "torch.optim.SGD", "options": {"lr": 0.1, "momentum": 0.5}, "maximize": True, "loss": "ja",
                 "parameters": ["a"], "iterations": 8, "checkpoint": cka, "checkpoint_frequency": 4},
                joint("jb", normal("nb", {"id": "b", "type": "Parameter", "tensor": [1.0, 1.0]}, "a")),
                {"id": "opt2", "type": "Optimizer", "algorithm": "torch.optim.SGD", "options": {"lr": 0.1, "momentum": 0.5}, "maximize": True, "loss": "jb",
                 "parameters": ["b"], "iterations": 8, "checkpoint": ckb, "checkpoint_frequency": 4}]
        with open(cfg, "w") as f:
            json.dump(conf, f)
        env = dict(os.environ, PYTHONDONTWRITEBYTECODE="1", OMP_NUM_THREADS="1")

        def run(extra, out="-"):
            return subprocess.run([sys.executable, "-c", _DRIVER, REPO, out, cfg, "-s", "7"] + extra, cwd=d, env=env,
                                  capture_output=True, text=True, timeout=300)
        r1 = run([])
        if r1.returncode != 0 or not (os.path.exists(cka) and os.path.exists(ckb)):
            raise Undecided("two-stage run of main() did not produce both checkpoints (rc=%s): %s" % (r1.returncode, r1.stderr[-400:]))
        saved = [json.load(open(cka)), json.load(open(ckb))]
        seen = os.path.join(d, "seen.json")
        r2 = run(["-c", cka, "-c", ckb, "--dry"], seen)
        res = {"config": "two optimisers, two checkpoint files", "restart_rc": r2.returncode, "restart_error": None, "diffs": []}
        if r2.returncode != 0 or "Traceback" in r2.stderr:
            res["restart_error"] = r2.stderr.strip().splitlines()[-3:]
            return res
        got = json.load(open(seen)) if os.path.exists(seen) else []
        if len(got) != 2:
            res["diffs"].append("load_state_dict was called %d times, expected once per algorithm" % len(got))
        else:
            for k in range(2):
                res["diffs"] += sh.same(saved[k], got[k], "checkpoint%d" % (k + 1))
        return res
    finally:
        shutil.rmtree(d, ignore_errors=True)


def ob_main_two_files():
    def fn():
        r = _two_stage_case()
        if r["restart_error"] or r["diffs"]:
            raise Refuted("main() restarted with two -c checkpoint files: %s" % (r["restart_error"] or "; ".join(r["diffs"][:3])), witness=r,
                          replay={"kind": "custom", "contract": "C17", "func": "replay_two_files", "args": {}}, confirmed=True)
        return {"backend": "concrete (bounded)", "cases": 1,
                "statement": "two optimisers with separate checkpoint files; restart with -c file1 -c file2: every algorithm gets its state and every parameter of BOTH files is re-injected"}
    return fn


def replay_two_files(args):
    r = _two_stage_case()
    if r["restart_error"] or r["diffs"]:
        return False, "restart with two checkpoint files: %s %s" % (r["restart_error"] or "", r["diffs"][:4])
    return True, "both checkpoint files re-injected"


def _main_case(name):
    import shutil
    import subprocess
    import sys
    import tempfile
    from vt.runner import REPO
    d = tempfile.mkdtemp(prefix="c17main-")
    try:
        ck = os.path.join(d, "checkpoint.json")
        cfg = os.path.join(d, "config.json")
        with open(cfg, "w") as f:
            json.dump(_main_config(name, ck), f)
        env = dict(os.environ, PYTHONDONTWRITEBYTECODE="1", OMP_NUM_THREADS="1")

        def run(extra, out="-"):
            return subprocess.run([sys.executable, "-c", _DRIVER, REPO, out, cfg, "-s", "7"] + extra, cwd=d, env=env,
                                  capture_output=True, text=True, timeout=300)
        r1 = run([])
        if r1.returncode != 0 and any(w in r1.stderr for w in ("save_full_state", "save_parameters", "state_dict")):
            # the run died while WRITING its checkpoint: nothing can be restarted
            return {"config": name, "restart_rc": None, "restart_error": ["while writing the checkpoint:"] + r1.stderr.strip().splitlines()[-3:],
                    "diffs": [], "continue_rc": None}
        if r1.returncode != 0 or not os.path.exists(ck):
            raise Undecided("first run of main() did not produce a checkpoint (rc=%s): %s" % (r1.returncode, r1.stderr[-400:]))
        saved = json.load(open(ck))
        seen = os.path.join(d, "seen.json")
        r2 = run(["-c", ck, "--dry"], seen)           # restart: parse, re-inject tensors and algorithm state, do not run
        res = {"config": name, "restart_rc": r2.returncode, "restart_error": None, "diffs": [], "continue_rc": None}
        if r2.returncode != 0 or "Traceback" in r2.stderr:
            res["restart_error"] = r2.stderr.strip().splitlines()[-3:]
            return res
        got = json.load(open(seen)) if os.path.exists(seen) else []
        if len(got) != 1:
            res["diffs"].append("load_state_dict was called %d times on the algorithm" % len(got))
        else:
            res["diffs"] = sh.same(saved, got[0], "checkpoint")
        r3 = run(["-c", ck])                          # and the resumed run must be able to continue
        res["continue_rc"] = r3.returncode
        if r3.returncode != 0 or "Traceback" in r3.stderr:
            res["restart_error"] = ["while continuing:"] + r3.stderr.strip().splitlines()[-3:]
        return res
    finally:
        shutil.rmtree(d, ignore_errors=True)


def _replay_main(args):
    r = _main_case(args["config"])
    if r["restart_error"] or r["diffs"]:
        return False, "real main() restarted with -c on its own checkpoint (%s): %s %s" % (r["config"], r["restart_error"] or "", r["diffs"][:4])
    return True, "%s: restart succeeded and the re-injected state equals the checkpoint" % r["config"]


def ob_main(name):
    def fn():
        r = _main_case(name)
        if r["restart_error"] or r["diffs"]:
            args = {"kind": "main", "config": name}
            raise Refuted("main() restart from its own checkpoint (%s): %s" % (name, r["restart_error"] or "; ".join(r["diffs"][:3])), witness=r,
                          replay={"kind": "custom", "contract": "C17", "func": "replay_roundtrip", "args": args}, confirmed=True)
        return {"backend": "concrete (bounded)", "cases": 1,
                "statement": "real main() on a tiny configuration (%s): run 12 iterations with a checkpoint every 4; restart with -c: no failure, the state "
                             "re-injected into the algorithm and its parameters equals the checkpoint file (as JSON), and the resumed run completes" % name}
    return fn


# ==========================================================================================
# guards
# ==========================================================================================
# who restores what a class assigns through a reference to a collaborator
_COVERAGE = {
    ("LeapfrogIntegrator", "step_size"): "LeapfrogIntegrator frame (saved by HMCOperator._state_dict['integrator']); checked by C17.roundtrip.LeapfrogIntegrator",
    ("Parameter", "tensor"): "mass matrix: HMCOperator._state_dict['mass_matrix'] (held field, C17.roundtrip.HMCOperator); model parameters: the parameter list of the checkpoint (C17.codec.parameter, C17.main)",
    ("Tensor", "[]"): "in-place update of a parameter tensor that is then re-assigned through Parameter.tensor; saved with the parameter list",
    ("Parameter", "requires_grad"): "re-established by the code itself: Optimizer._run/_run_closure set it before the loop, HMCOperator._step/LeapfrogIntegrator reset it at the end of every step",
    ("SpecStateful", "step_size"): "stand-in for the integrator (see LeapfrogIntegrator.step_size)",
}


def ob_guard_discovery():
    def fn():
        found, recipes = _discover()
        concrete = [f for f in found if not f["abstract"]]
        if not concrete:
            raise Undecided("vacuity guard failed: no class with a state_dict/load_state_dict pair was discovered")
        have = {r.cls for r in recipes}
        without = [f["qual"] for f in concrete if f["cls"] not in have]
        no_state = {}
        for f in found:
            if f["abstract"]:
                try:
                    f["cls"].__new__(f["cls"])
                    inst = "instantiable?"
                except TypeError as e:
                    inst = str(e)[:160]
                no_state[f["qual"]] = {"missing_abstract_methods": f["abstract"], "instantiation": inst,
                                       "registered_concrete_class": "register_class" in inspect.getsource(f["cls"]).split("class ")[0]}
        if _CACHE.get("failed"):
            raise Undecided("modules that could not be imported: %s" % _CACHE["failed"])
        return {"backend": "introspection", "classes": len(concrete), "with_recipe": len(concrete) - len(without), "without_recipe": without,
                "no_restorable_state": no_state,
                "statement": "%d concrete classes define a save/load pair; %d classes cannot be instantiated (abstract methods missing) and have no restorable state" % (len(concrete), len(no_state))}
    return fn


def ob_guard_json_path():
    def fn():
        try:
            enc, dec = sh.json_path()
        except sh.PathChanged as e:
            raise Undecided(str(e))
        from torchtree.inference.mcmc.mcmc import MCMC
        from torchtree.optim.optimizer import Optimizer
        for c in (MCMC, Optimizer):
            src = inspect.getsource(c.save_full_state)
            if "save_parameters(" not in src or ".update(self.state_dict())" not in src or "+ self.parameters" not in src:
                raise Undecided("%s.save_full_state no longer has the shape [state] + self.parameters -> save_parameters" % c.__name__)
        return {"backend": "ast", "encoder": enc.__module__ + "." + enc.__name__, "decoder": dec.__module__ + "." + dec.__name__,
                "statement": "save path: save_full_state -> save_parameters -> json.dump(cls=%s); load path: main -> json.load(cls=%s) -> update_parameters / load_state_dict(others[id])" % (enc.__name__, dec.__name__)}
    return fn


def ob_guard_foreign():
    def fn():
        _, recipes = _discover()
        seen, unknown = {}, []
        for r, make in [(r, m) for r in recipes for _, m in r.variants]:
            inst = _quiet(make, "real", sh.Sentinels(0))
            for typ, attr, path in sh.foreign_targets(r.cls, inst):
                key = (typ.__name__ if typ else None, attr)
                if key in _COVERAGE:
                    seen.setdefault("%s.%s" % key, set()).add(r.cls.__name__)
                else:
                    unknown.append({"class": r.cls.__name__, "path": ".".join(path), "target": key})
        if unknown:
            raise Undecided("assignments into collaborators that no contract covers: %s" % unknown[:5])
        return {"backend": "ast", "foreign_writes": {k: sorted(v) for k, v in seen.items()}, "coverage": {"%s.%s" % k: v for k, v in _COVERAGE.items()},
                "statement": "every field a class assigns through a collaborator reference is in the frame of a class that saves it"}
    return fn


def ob_guard_transient():
    def fn():
        from torchtree.inference.mcmc.mcmc import MCMC
        t_run = ast.parse(textwrap.dedent(inspect.getsource(MCMC.run)))

        def first_call(attr):     # position of the first `<anything>.<attr>()` call (the name of the operator local is not part of the shape)
            pos = [(n.lineno, n.col_offset) for n in ast.walk(t_run) if isinstance(n, ast.Call) and isinstance(n.func, ast.Attribute) and n.func.attr == attr]
            return min(pos) if pos else None
        i_step, i_acc, i_rej, i_save = (first_call(x) for x in ("step", "accept", "reject", "save_full_state"))
        if None in (i_step, i_acc, i_rej, i_save) or not (i_step < i_acc < i_save and i_step < i_rej < i_save):
            raise Undecided("MCMC.run: call order step < accept/reject < save_full_state not found")
        _, recipes = _discover()
        exempt = {}
        for r in recipes:
            t = _transient(r.cls)
            if t:
                exempt[r.cls.__name__] = t
            if len(t) > 4:
                raise Undecided("%d scratch fields in %s: %s - too many for a proposal buffer, look at them" % (len(t), r.cls.__name__, sorted(t)))
        return {"backend": "ast", "exempt": exempt,
                "statement": "fields exempted from the comparison are assigned unconditionally in the straight-line prefix of step() and read only by reject()/_step(), "
                             "which MCMC.run calls after step() and before the checkpoint of the same iteration (the exemption follows from that shape, not from the names)"}
    return fn


def _snapshot(obj, depth=0):
    out = {}
    for k, v in getattr(obj, "__dict__", {}).items():
        if isinstance(v, torch.Tensor):
            out[k] = ("T", str(v.dtype), tuple(v.shape), v.detach().clone().reshape(-1).tolist())
        elif isinstance(v, (int, float, str, bool, type(None))):
            out[k] = v
        elif isinstance(v, (list, tuple, collections.deque)):
            out[k] = [e.tolist() if isinstance(e, torch.Tensor) else (type(e).__name__ if sh.is_plain_object(e) else repr(e)) for e in v]
        elif sh.is_plain_object(v) and depth < 2 and not hasattr(v, "fire_parameter_changed"):
            out[k] = _snapshot(v, depth + 1)
    return out


def ob_guard_frames():
    """cross-check of the AST frame against what the real mutators actually change"""
    def fn():
        _, recipes = _discover()
        extra = _extra_frames(recipes)
        sizes, missed = {}, []
        for r, vl, make in [(r, vl, m) for r in recipes for vl, m in r.variants]:
            inst = _quiet(make, "real", sh.Sentinels(0))
            before = _snapshot(inst)
            if r.warm is not None:
                torch.manual_seed(3)
                _quiet(r.warm, inst, 12)
            after = _snapshot(inst)
            fr = sh.frame(r.cls, inst, extra.get(r.cls, ()))
            known = set(fr["own"]) | set(fr["held"]) | set(fr["delegated"]) | {p[0] for p in fr["foreign"]}
            changed = {k for k in set(before) | set(after) if before.get(k, sh.MISSING) != after.get(k, sh.MISSING)}
            changed.discard("iterations")  # set by the warm-up driver itself (configuration: run length), not by the class
            sizes[r.name + ("{%s}" % vl if vl else "")] = len(known)
            if not known:
                raise Undecided("vacuity guard failed: empty frame for %s" % r.name)
            for k in sorted(changed - known):
                missed.append("%s.%s changed during the real warm-up but is not in the AST frame" % (r.name, k))
        if missed:
            raise Undecided("frame scan incomplete: %s" % missed[:6])
        return {"backend": "ast+dynamic", "frame_sizes": sizes,
                "statement": "for every recipe: every instance field that 12 rounds of the real mutators change is in the frame computed from the source (own, held, delegated, "
                             "or a collaborator written through - covered by C17.guard.foreign_writes); all frames are non-empty"}
    return fn


# ==========================================================================================
def obligations(tier, seed):
    found, recipes = _discover()
    obs = []
    funcs = FUNCS
    obs.append(Ob("C17.guard.discovery", "U", ob_guard_discovery(), clause="guard", funcs=funcs, timeout=120))
    obs.append(Ob("C17.guard.json_path", "U", ob_guard_json_path(), clause="guard", funcs=funcs, timeout=120))
    obs.append(Ob("C17.guard.foreign_writes", "U", ob_guard_foreign(), clause="guard", funcs=funcs, timeout=120))
    obs.append(Ob("C17.guard.transient", "U", ob_guard_transient(), clause="guard", funcs=funcs, timeout=120))
    obs.append(Ob("C17.guard.frames", "U", ob_guard_frames(), clause="guard", funcs=funcs, timeout=300))
    for r in recipes:
        for clause in ("restart_ok", "state"):
            obs.append(Ob("C17.roundtrip.%s.%s" % (r.name, clause), "U", ob_roundtrip(r.cls.__name__, r.label, clause, seed),
                          clause="restarting never fails" if clause == "restart_ok" else "run state identical after restart", funcs=funcs, timeout=300))
    for r in recipes:
        # MCMC, Optimizer and Scheduler continue through their real run loops in C17.counter / C17.optim / C17.main
        if r.warm is not None and r.cls.__name__ not in ("MCMC", "Optimizer", "Scheduler"):
            obs.append(Ob("C17.continue.%s" % r.name, "B", ob_continue(r.cls.__name__, r.label, seed),
                          clause="restarted object continues as the uninterrupted one (bounded)", funcs=funcs, timeout=300))
    have = {r.cls for r in recipes}
    for f in found:
        if not f["abstract"] and f["cls"] not in have:
            def und(q=f["qual"]):
                raise Undecided("%s defines a state_dict/load_state_dict pair but contracts/C17.py has no construction recipe for it" % q)
            obs.append(Ob("C17.roundtrip.%s.state" % f["cls"].__name__, "U", und, clause="run state identical after restart", funcs=funcs))
    for kind in ("MCMC", "Optimizer._run", "Optimizer._run_closure"):
        obs.append(Ob("C17.counter.%s" % kind, "U", ob_counter(kind, tier), clause="resumed run continues with the next iteration", funcs=funcs, timeout=300))
    for d in _DTYPES:
        obs.append(Ob("C17.codec.tensor[%s]" % d, "V", ob_codec_tensor(d, seed), clause="tensor codec", funcs=funcs, timeout=120))
    obs.append(Ob("C17.codec.parameter", "V", ob_codec_parameter(seed), clause="parameter codec", funcs=funcs, timeout=120))
    obs.append(Ob("C17.codec.update_parameters", "V", ob_codec_update(tier), clause="parameter re-injection", funcs=funcs, timeout=120))
    for name in [n for n in _OPTIMS if not n.endswith(",float32")]:
        obs.append(Ob("C17.optim[%s]" % name, "B", ob_optim(name), clause="optimiser moments and scheduler (bounded)", funcs=funcs, timeout=300))
    for name in _MAIN:
        obs.append(Ob("C17.main[%s]" % name, "B", ob_main(name), clause="restart through main() (bounded)", funcs=funcs, timeout=600))
    obs.append(Ob("C17.main[two checkpoint files]", "B", ob_main_two_files(), clause="restart through main() with several -c files (bounded)", funcs=funcs, timeout=600))
    # vacuity: must-fail twins
    tw = [("TwinSkipsField", "state", "loader skips one field"), ("TwinSwapsKeys", "state", "two saved keys swapped"),
          ("TwinReadsUnknownKey", "restart_ok", "loader reads a key that is never written"), ("TwinDropsWindow", "state", "loader drops a container")]
    for t, clause, what in tw:
        obs.append(Ob("C17.vacuity.%s" % t, "U", ob_must_fail(ob_roundtrip(t, "", clause, seed), what), clause="vacuity", funcs=funcs, timeout=300))

    def lossy_decoder_twin():
        # must-fail twin of the codec: a decoder that loses the dtype must be caught by the typed equality
        from torchtree.core.utils import TensorEncoder
        t = torch.tensor([1.5, 2.5], dtype=torch.float32)
        d = json.loads(json.dumps(t, cls=TensorEncoder))
        back = torch.tensor(d["values"])
        if not sh.same(t, back):
            raise Undecided("vacuity guard failed: typed equality does not see a lost dtype")
        return {"backend": "enum", "statement": "a decoder that drops the dtype is detected: %s" % sh.same(t, back)}
    obs.append(Ob("C17.vacuity.codec_dtype", "V", lossy_decoder_twin, clause="vacuity", funcs=funcs))
    return obs
