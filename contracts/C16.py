"""C16 — the leapfrog integrator is reversible and volume preserving (DESIGN 4, C16).

The REAL `LeapfrogIntegrator.__call__`, `HMCOperator._step` (through the real `MCMCOperator.step`),
`Hamiltonian.kinetic_energy/potential_energy/sample_momentum/_call` and the real `Parameter` /
`CallableModel` protocol are executed natively on symbolic tensors.  Replaced by an assumed contract
(see META.trusted_base): the target density and autograd ("`model()` then `.backward()` leaves
cat(param.grad) = ∇logp(q) with q the parameter values at the time of `model()`", ∇logp uninterpreted:
component i is the atom g<i>(q_0..q_{d-1})), and the momentum draw (an arbitrary real vector).

Obligation families
  C16.reverse[d,steps,rank,split]      V  Φ(Φ(q,p)|p↦−p) ≡ (q,−p)                       (whole property bound)
  C16.reverse.cut[d,rank]              U  loop cut: Φ = K_{−ε/2}∘(K_ε∘D_ε)^steps∘K_{ε/2} for every step count
  C16.reverse.lemmas[d,rank]           U  R∘K_a∘R∘K_a = id, R∘D_ε∘R∘D_ε = id, K_a∘K_b = K_{a+b}  (spec maps)
  C16.volume.trace[d,steps,rank]       V  every assignment executed by the integrator is a shear (line trace)
  C16.volume.cut[d,rank]               U  the same on prefix / cut loop body / suffix with a fresh pre-state
  C16.volume.det[d,steps,rank]         V  explicit Jacobian determinant ≡ 1 (symbolic Hessian atoms), d≤2, steps≤2
  C16.hastings[...]                    V  `_step` returns K(p0) − K(p1), K(p)=½pᵀM⁻¹p; accept exponent = −ΔH
  C16.hastings.modular[...]            U  the same with the integrator replaced by its contract (any trajectory)
  C16.hastings.fail[...]               V  every failure point of a trial restores the saved tensors; 10 failures → ±inf → rejected
  C16.hastings.mcmc[...]               V  one iteration of the real MCMC.run: accepted ⇔ u < min(1, exp(−ΔH)); 10 failures rejected
  C16.hastings.kinetic[...]            V  Hamiltonian.kinetic_energy / Hamiltonian._call ≡ ½pᵀM⁻¹p − logp
  C16.energy.order[...]                V  (partial) Taylor coefficients 0,1,2 in ε of the energy error vanish at fixed step count
  C16.vacuity.*                        must-fail twins (patched COPIES of the integrator source / wrong specs)
Not decided: the O(ε²) energy-error clause at fixed trajectory length (asymptotics, needs a global error bound).
"""
from __future__ import annotations

import ast
import contextlib
import importlib
import inspect
import io
import sys
import textwrap

import numpy as np
import torch

from vt import nf
from vt import symtorch_ext_C16  # noqa: F401  (registers requires_grad_)
from vt.cond import Undecided
from vt.runner import Ob, Refuted
from vt.scenario import el, prove_scenario, scenario_ob
from vt.symtorch import ST, _det2d

FUNCS = [
    "torchtree.inference.hmc.integrator:LeapfrogIntegrator.__call__",
    "torchtree.inference.hmc.integrator:set_tensor",
    "torchtree.inference.hmc.operator:HMCOperator._step",
    "torchtree.inference.hmc.operator:HMCOperator.__init__",
    "torchtree.inference.hmc.operator:HMCOperator.update_mass_matrices",
    "torchtree.inference.hmc.hamiltonian:Hamiltonian.kinetic_energy",
    "torchtree.inference.hmc.hamiltonian:Hamiltonian.potential_energy",
    "torchtree.inference.hmc.hamiltonian:Hamiltonian.sample_momentum",
    "torchtree.inference.hmc.hamiltonian:Hamiltonian._call",
    "torchtree.inference.mcmc.operator:MCMCOperator.step",
    "torchtree.inference.mcmc.operator:MCMCOperator.reject",
    "torchtree.inference.mcmc.operator:MCMCOperator.accept",
    "torchtree.inference.mcmc.mcmc:MCMC.run",
    "torchtree.core.model:CallableModel.__call__",
    "torchtree.core.model:CallableModel.handle_parameter_changed",
    "torchtree.core.parameter:Parameter.tensor",
    "torchtree.core.parameter:Parameter.requires_grad",
    "torchtree.core.parameter:Parameter.grad",
]

D_MAX, STEPS_MAX = 8, 30

META = {
    "level": "other",
    "exhaustive": True,
    "explanation":
        "Reversibility: the real LeapfrogIntegrator.__call__ is run twice on fully symbolic (q, p, ε, M⁻¹) with the target "
        "and autograd replaced by the uninterpreted-gradient contract; Φ(Φ(q,p)|p↦−p) ≡ (q,−p) is an exact identity of "
        "normal forms (the nested ∇logp applications of the return trip canonicalise to those of the forward trip). "
        "This is enumerated over the property's whole shape bound (d=1..8 × steps=1..30 × diagonal/dense, several "
        "parameter splits), all real values at once, and additionally for EVERY step count by an AST cut of the `for` loop "
        "(prefix ≡ K_{ε/2}, one iteration on a fresh pre-state ≡ K_ε∘D_ε and re-establishes dU = −∇logp(params), suffix ≡ "
        "K_{−ε/2}; generators R-reversible by nf; palindromic-composition lemma assumed). Volume: every assignment the "
        "integrator executes (observed by a line trace of the real frame, oracle answers fresh symbols) is a shear — the "
        "position increment is a function of the current momentum only, the momentum increment a function of the gradient "
        "at the current position only — for the whole bound and, through the loop cut, for every step count; unit Jacobian "
        "of a shear and multiplicativity of det are the assumed classical lemma, cross-validated by the explicit 2d×2d "
        "Jacobian determinant ≡ 1 with symbolic Hessian atoms (d≤2, steps≤2). Hastings: the real HMCOperator._step "
        "(momentum draw stubbed) returns K(p0)−K(p1) with K(p)=½pᵀM⁻¹p for diagonal and dense M (M⁻¹ specified independently "
        "by cofactors), for the real integrator and for an arbitrary trajectory (integrator replaced by its contract); with "
        "the joint re-evaluated as MCMC.run does, Δlogp + hastings ≡ −(H₁−H₀); the draw is N(0,M) with the same M; every "
        "failure point of a trial (NaN potential at each model call, NaN gradient at each backward) restores the saved "
        "tensors before the next trial, ten failures return ±inf which MCMC.run rejects (`torch.isinf` branch) and reject() "
        "restores; one iteration of the real MCMC.run (torch.rand stubbed by a symbolic u) accepts iff u < min(1, exp(−(H₁−H₀))) "
        "with H written from the definition, and leaves the chain at the trajectory end / the saved state. NOT DECIDED: the clause 'the energy error shrinks quadratically with the step size' is an asymptotic "
        "statement; only its local form is checked (C16.energy.order: the Taylor coefficients of order 0,1,2 in ε of "
        "H(Φ_ε(q,p))−H(q,p) vanish identically at fixed step count ≤3, d≤3, modulo ∂_k logp = g_k and ∂_k g_i = ∂_i g_k, i.e. for a "
        "C³ target whose gradient the oracle returns; this gives E = O(ε³) per fixed step count) — the "
        "fixed-trajectory-length O(ε²) bound needs a global error analysis and is not claimed.",
    "bound": "reverse/volume.trace: d=1..8 × steps=1..30 × {diagonal,dense} (property bound, exhaustive in thorough; quick: all d, "
             "steps 1..5 and 30); cut obligations: every step count, d=1..8; volume.det: d≤2, steps≤2; hastings: real integrator "
             "d≤3, steps≤3 (dense M inverted symbolically by the real torch.inverse call, d≤3); modular (any trajectory) d=1..8 both ranks, "
             "dense d≥4 with torch.inverse replaced by its contract; failure points: every model call / backward of a trial, d=2, steps≤2; "
             "MCMC.run iteration: d≤3 diagonal / d≤2 dense, steps≤2. U obligations are unbounded in the step count and enumerate d=1..8 (the property's bound)",
    "trusted_base": [
        "real arithmetic (IEEE rounding not modelled: 'up to round-off' is read as exact identity over the reals)",
        "TARGET/AUTOGRAD STAND-IN (assumed contract): the target is a real torchtree CallableModel subclass `_Target` whose "
        "parameters are the operator's real Parameter objects (so the real change-notification / lp cache protocol runs); "
        "`_call()` returns a 0-d symbolic tensor logp(q) (atom `logp(q_0..q_{d-1})`, q = the parameter values at call time) "
        "with a `.backward()` that, for every parameter tensor object read by that `_call` whose requires_grad flag is set, "
        "ADDS to its `.grad` (sets when None) the slice of (g0(q),…,g_{d-1}(q)), g_i uninterpreted atoms; it raises like "
        "torch when no leaf requires grad. In concrete mode the same class evaluates "
        "logp(q) = −Σ√(1+q_i²) − 0.3Σ√(1+(q_i−q_{i+1})²) with real torch autograd; g_i / Hessian callables are its analytic "
        "derivatives (used to evaluate the symbolic terms in the cross-check, so the stand-in is compared with real autograd on every run)",
        "fresh-oracle mode (volume obligations): the k-th backward writes fresh variables G<k>[i] standing for ∇logp at the "
        "position of the k-th model call; the position is logged and compared with the integrator's `params` local",
        "MOMENTUM DRAW (modular): at its call sites `Hamiltonian.sample_momentum` is replaced for one scenario by its contract - it returns "
        "the next symbolic momentum (an arbitrary real vector) and the mass matrix it is asked for is a claim; the BODY of the real "
        "sample_momentum is checked against the same contract (a draw of N(0,M)) by C16.momentum.draw: with the standard-normal primitives "
        "of torch (randn, randn_like, normal, Tensor.normal_) feeding a chosen vector z the result is A·z, A·Aᵀ = M (sampled M and z; bounded)",
        "observation only: `sys.settrace` line trace reading the locals `params`/`momentum` of the real integrator frame; a "
        "LeapfrogIntegrator subclass whose __call__ is `super().__call__` plus logging of arguments and result",
        "failure injection: `_Target._call` returns a real NaN tensor at a chosen call / its backward writes NaN gradients",
        "`divergence_threshold` = +inf (the JSON option 'inf'; symbolic stand-in `_InfST` for which `x > thr` is False) switches the "
        "print-only divergence diagnostic off; two obligations keep the default 1000 and prove both sides of that fork",
        "`torch.inverse` in the namespace of torchtree.inference.hmc.operator replaced by its contract (returns a fresh symmetric W "
        "taken as M⁻¹; called on M is a claim) ONLY in C16.hastings.modular[d≥4,dense]; elsewhere the symbolic Gauss-Jordan inverse is "
        "compared with an independent cofactor inverse",
        "`torch.rand` in the namespace of torchtree.inference.mcmc.mcmc replaced by a symbolic u∈(0,1) (C16.hastings.mcmc only); "
        "SIGINT handler installed by SignalHandler is restored afterwards",
        "vt.loopcut: prefix / loop body / suffix of LeapfrogIntegrator.__call__ compiled verbatim from the current source in the "
        "module globals; the dropped header must read `for _ in range(self.steps)` (checked) and is given Python's meaning",
        "classical lemmas (assumed, not mechanised): (1) if R∘f_i∘R = f_i⁻¹ and f_i = f_{n+1−i} then R∘(f_1∘…∘f_n)∘R = (f_1∘…∘f_n)⁻¹ "
        "[R(f_1…f_n)R = Πf_i⁻¹ = (f_n…f_1)⁻¹]; (2) a shear (q,p)↦(q+F(p),p) or (q,p+F(q)) has Jacobian determinant 1 and det is "
        "multiplicative under composition (chain rule)",
        "vt.nf exact normal form; nf.diff chain rule through uninterpreted atoms (D<k>_g<i>)",
        "symbolic torch.inverse (Gauss-Jordan, pivots assumed non-zero — true for SPD M)",
    ],
    "assumptions": [
        "machine arithmetic treated as mathematical (reals); identities are identities of rational functions, valid wherever the "
        "pivots of M are non-zero, in particular for every SPD M; the sampling boxes (diagonally dominant M) only drive the numeric cross-check",
        "the gradient oracle is a function of the position only (differentiable target, no hidden state)",
        "the accept rule of MCMC.run is exercised for one iteration with a single operator (C16.hastings.mcmc); the general loop "
        "invariant of MCMC.run belongs to C15.loop",
        "energy-error clause not decided (see explanation)",
    ],
}

MANIFEST = {
    "category": "other",
    "text": "The real LeapfrogIntegrator.__call__ and HMCOperator._step are executed on symbolic tensors with the target and "
            "autograd replaced by an uninterpreted gradient oracle. Reversibility Φ(Φ(q,p)|p↦−p)=(q,−p) is an exact normal-form "
            "identity for every d=1..8, steps=1..30, diagonal and dense mass matrix (the property's bound), and for every step "
            "count via an AST loop cut plus the palindromic-composition lemma. Volume preservation: every executed assignment "
            "is a shear (dependency analysis on a line trace and on the cut loop body), cross-validated by the explicit "
            "determinant. The Hastings term equals K(p0)−K(p1) with K=½pᵀM⁻¹p for both ranks, the momentum is drawn from N(0,M), "
            "the acceptance exponent equals −ΔH, and every numerical-failure point restores the saved tensors.",
    "note": "Real arithmetic, not IEEE. The target/autograd and the momentum draw are assumed contracts (uninterpreted gradient, "
            "arbitrary momentum). The clause 'energy error shrinks quadratically with the step size' is asymptotic and NOT decided; "
            "only the local order (Taylor coefficients 0..2 vanish, fixed step count) is checked. Shear ⇒ unit Jacobian and the "
            "palindrome lemma are classical lemmas stated, not mechanised.",
    "technique": "sidecar contracts on real methods + native symbolic execution (__torch_function__) + exact normal form with "
                 "uninterpreted functions + AST loop cut + frame line-trace dependency analysis + symbolic differentiation",
}


# ======================================================================================================
# concrete target (numeric mode) and the interpretation of the uninterpreted symbols
# ======================================================================================================

def _phi(x):
    return x / (1 + x * x) ** 0.5


def _hh(x):
    return 1 / (1 + x * x) ** 1.5


def _logp_py(*q):
    d = len(q)
    r = -sum((1 + x * x) ** 0.5 for x in q)
    for i in range(d - 1):
        r = r - 0.3 * (1 + (q[i] - q[i + 1]) ** 2) ** 0.5
    return r


def _logp_torch(q):
    r = -(1 + q * q).sqrt().sum()
    if q.shape[-1] > 1:
        dq = q[..., :-1] - q[..., 1:]
        r = r - 0.3 * (1 + dq * dq).sqrt().sum()
    return r


def _grad_py(i, q):
    d = len(q)
    r = -_phi(q[i])
    if i < d - 1:
        r = r - 0.3 * _phi(q[i] - q[i + 1])
    if i > 0:
        r = r + 0.3 * _phi(q[i - 1] - q[i])
    return r


def _hess_py(i, k, q):
    d = len(q)
    if k == i:
        r = -_hh(q[i])
        if i < d - 1:
            r = r - 0.3 * _hh(q[i] - q[i + 1])
        if i > 0:
            r = r - 0.3 * _hh(q[i - 1] - q[i])
        return r
    if k == i + 1:
        return 0.3 * _hh(q[i] - q[i + 1])
    if k == i - 1:
        return 0.3 * _hh(q[i - 1] - q[i])
    return 0 * q[0]


def _fns(d):
    f = {"logp": _logp_py}
    for i in range(d):
        f["g%d" % i] = (lambda i: lambda *q: _grad_py(i, q))(i)
        for k in range(d):
            f["D%d_g%d" % (k, i)] = (lambda i, k: lambda *q: _hess_py(i, k, q))(i, k)
    return f


# ======================================================================================================
# stand-ins
# ======================================================================================================

_CLS = {}


def _tt():
    """real torchtree classes + the stand-in classes built on them (cached per process)"""
    if _CLS:
        return _CLS
    from torchtree.core.model import CallableModel
    from torchtree.core.parameter import Parameter
    from torchtree.inference.hmc import hamiltonian as ham_mod
    from torchtree.inference.hmc import integrator as int_mod
    from torchtree.inference.hmc import operator as op_mod

    class _LogpST(ST):
        """0-d symbolic log-density with the autograd contract attached"""

        def __init__(self, value, target, leaves, q, k):
            a = np.empty((), dtype=object)
            a[()] = value
            super().__init__(a)
            self._target, self._leaves, self._q, self._k = target, leaves, q, k

        def backward(self, *a, **kw):
            self._target._backward(self._leaves, self._q, self._k)

    class _Target(CallableModel):
        """stand-in target: see META.trusted_base"""

        def __init__(self, params, symbolic, oracle="ufn", plan=None):
            super().__init__(None)
            self.plist = list(params)
            for i, p in enumerate(self.plist):
                setattr(self, "_x%d" % i, p)  # Parametric.__setattr__ registers the listener (real protocol)
            self.symbolic, self.oracle = symbolic, oracle
            self.calls = []          # (k, position list) for every _call
            self.backwards = []      # call index of every backward
            self.plan = plan         # failure plan: per trial None | [kind, index]
            self.trial = -1          # no failure injection before the first momentum draw
            self.n_call_trial = 0
            self.n_back_trial = 0

        # failure injection ------------------------------------------------------------------------
        def new_trial(self, t):
            self.trial, self.n_call_trial, self.n_back_trial = t, 0, 0

        def _fail(self, kind, idx):
            if not self.plan or self.trial < 0 or self.trial >= len(self.plan):
                return False
            f = self.plan[self.trial]
            return f is not None and f[0] == kind and int(f[1]) == idx

        # model protocol ---------------------------------------------------------------------------
        def _call(self, *a, **kw):
            k = len(self.calls)
            leaves = [p.tensor for p in self.plist]
            kc = self.n_call_trial
            self.n_call_trial += 1
            if self.symbolic:
                q = [v for l in leaves for v in l.a.reshape(-1)]
                self.calls.append((k, list(q)))
                if self._fail("U", kc):
                    return torch.tensor(float("nan"))
                val = nf.ufn("logp", *q) if self.oracle == "ufn" else nf.var("U%d" % k)
                return _LogpST(val, self, leaves, q, k)
            qt = torch.cat(leaves, -1)
            self.calls.append((k, [float(v) for v in qt.detach()]))
            if self._fail("U", kc):
                return torch.tensor(float("nan"))
            u = _logp_torch(qt)
            if self._fail("G", self.n_back_trial):
                u = u + torch.sqrt((qt * 0).sum())  # value unchanged, gradient 0*inf = NaN
            if u.requires_grad:
                self.n_back_trial += 1  # concrete: the integrator calls backward exactly once per graph-building call
            return u

        def _backward(self, leaves, q, k):
            if not any(l.requires_grad for l in leaves):
                raise RuntimeError("element 0 of tensors does not require grad and does not have a grad_fn")
            kb = self.n_back_trial
            self.n_back_trial += 1
            self.backwards.append(k)
            bad = self._fail("G", kb)
            off = 0
            for l in leaves:
                n = int(l.a.size)
                if l.requires_grad:
                    if bad:
                        g = torch.full(tuple(l.a.shape), float("nan"))
                    else:
                        ga = np.empty(l.a.shape, dtype=object)
                        gf = ga.reshape(-1)
                        for j in range(n):
                            gf[j] = nf.ufn("g%d" % (off + j), *q) if self.oracle == "ufn" else nf.var("G%d[%d]" % (k, off + j))
                        g = ST(ga)
                    l.grad = g if l.grad is None else l.grad + g
                off += n

        def _sample_shape(self):
            return torch.Size([])

        @classmethod
        def from_json(cls, data, dic):
            raise NotImplementedError

    _CLS.update(CallableModel=CallableModel, Parameter=Parameter, ham_mod=ham_mod, int_mod=int_mod, op_mod=op_mod,
                Target=_Target, LogpST=_LogpST)
    return _CLS


# integrator variants: "real" or a must-fail twin compiled from a patched COPY of the class source --------------
_TWINS = {
    "no_final_half": [("        momentum += self.step_size / 2 * dU\n", "")],
    "first_kick_full": [("momentum = momentum - self.step_size / 2.0 * dU", "momentum = momentum - self.step_size * dU")],
    "drift_scales_q": [("params = params + self.step_size * inverse_mass_matrix * momentum",
                        "params = 1.01 * params + self.step_size * inverse_mass_matrix * momentum"),
                       ("params = params + self.step_size * (inverse_mass_matrix @ momentum)",
                        "params = 1.01 * params + self.step_size * (inverse_mass_matrix @ momentum)")],
    "kick_uses_momentum": [("            momentum -= self.step_size * dU\n",
                            "            momentum -= self.step_size * dU * (1 + 0.1 * momentum)\n")],
}
_TWIN_CACHE = {}


def _integrator_class(variant):
    tt = _tt()
    real = tt["int_mod"].LeapfrogIntegrator
    if variant == "real":
        return real
    if variant in _TWIN_CACHE:
        return _TWIN_CACHE[variant]
    src = textwrap.dedent(inspect.getsource(real))
    src = "\n".join(l for l in src.split("\n") if not l.strip().startswith("@register_class"))
    roles = _int_roles(real)
    import re as _re

    def _ren(t):
        for canon in ("dU", "params"):
            t = _re.sub(r"\b%s\b" % canon, roles[canon], t)
        return t
    for old, new in _TWINS[variant]:
        old, new = _ren(old), _ren(new)
        if src.count(old) != 1:
            raise Undecided("vacuity twin %s cannot be built: pattern %r occurs %d times in the current source" % (variant, old, src.count(old)))
        src = src.replace(old, new)
    ns = {}
    fname = "<C16 twin %s>" % variant
    import linecache
    linecache.cache[fname] = (len(src), None, src.splitlines(True), fname)  # so that inspect.getsource works on the twin (loop cut)
    exec(compile(src, fname, "exec"), tt["int_mod"].__dict__, ns)
    _TWIN_CACHE[variant] = ns["LeapfrogIntegrator"]
    return ns["LeapfrogIntegrator"]


# ======================================================================================================
# helpers working in both modes
# ======================================================================================================

def _vec(x):
    """tensor -> list of scalars (RF | float)"""
    if isinstance(x, ST):
        return list(x.a.reshape(-1))
    if isinstance(x, torch.Tensor):
        return [float(v) for v in x.detach().reshape(-1)]
    return list(x)


def _mat(x):
    if isinstance(x, ST):
        return [[x.a[i, j] for j in range(x.a.shape[1])] for i in range(x.a.shape[0])]
    return [[float(x[i, j]) for j in range(x.shape[1])] for i in range(x.shape[0])]


def _symmetric(mk, name, d, dlo, dhi, olim):
    """symmetric d×d input: diagonal in (dlo,dhi), off-diagonal in (−olim,olim) (diagonally dominant ⇒ SPD)"""
    dg = mk.real(name + "d", (d,), dlo, dhi)
    noff = d * (d - 1) // 2
    off = mk.real(name + "o", (noff,), -olim, olim) if noff else None
    if mk.symbolic:
        a = np.empty((d, d), dtype=object)
    else:
        a = torch.zeros((d, d))
    k = 0
    for i in range(d):
        a[i, i] = dg.a[i] if mk.symbolic else dg[i]
        for j in range(i + 1, d):
            v = off.a[k] if mk.symbolic else off[k]
            a[i, j] = v
            a[j, i] = v
            k += 1
    return ST(a) if mk.symbolic else a


def _inv_mass_input(mk, d, rank):
    if rank == "diag":
        return mk.real("w", (d,), 0.25, 2.0)
    return _symmetric(mk, "W", d, 1.0, 2.0, 0.12)


def _mass_input(mk, d, rank):
    if rank == "diag":
        return mk.real("m", (d,), 0.5, 4.0)
    return _symmetric(mk, "M", d, 1.0, 3.0, 0.9 / max(1, d - 1) if d > 1 else 0.1)


def _cofactor_inverse(M):
    """independent specification of the inverse: adj(M)/det(M) on nested lists of scalars"""
    n = len(M)

    def det(A):
        if len(A) == 1:
            return A[0][0]
        s = 0
        for j in range(len(A)):
            minor = [row[:j] + row[j + 1:] for row in A[1:]]
            s = s + (-1) ** j * A[0][j] * det(minor)
        return s
    dt = det(M)
    if n == 1:
        return [[1 / dt]]
    out = [[None] * n for _ in range(n)]
    for i in range(n):
        for j in range(n):
            minor = [row[:i] + row[i + 1:] for k, row in enumerate(M) if k != j]
            out[i][j] = (-1) ** (i + j) * det(minor) / dt
    return out


def _kinetic_spec(p, Winv):
    """½ pᵀ M⁻¹ p; Winv: list (diagonal of M⁻¹) or nested list"""
    p = _vec(p)
    s = 0
    if Winv and not isinstance(Winv[0], list):
        for i in range(len(p)):
            s = s + p[i] * Winv[i] * p[i]
    else:
        for i in range(len(p)):
            for j in range(len(p)):
                s = s + p[i] * Winv[i][j] * p[j]
    return s * 0.5 if not isinstance(s, nf.RF) else s / 2


class _Env:
    """inputs + real objects of one scenario run"""

    def __init__(self, mk, d, sizes, rank, oracle="ufn", variant="real", plan=None, mass=False, qdecl=True):
        tt = _tt()
        assert sum(sizes) == d
        self.mk, self.d, self.sizes, self.rank = mk, d, tuple(sizes), rank
        self.q = mk.real("q", (d,), -2.0, 2.0)
        eps_t = mk.real("eps", (), 1e-3, 0.5)
        self.eps = el(eps_t) if mk.symbolic else float(eps_t)
        if mass:
            self.M = _mass_input(mk, d, rank)
            self.W = None
        else:
            self.W = _inv_mass_input(mk, d, rank)
        self.params = self.fresh_params(self.q)
        self.model = tt["Target"](self.params, mk.symbolic, oracle, plan)
        self.variant = variant

    def fresh_params(self, q):
        tt = _tt()
        out, s = [], 0
        for k, n in enumerate(self.sizes):
            out.append(tt["Parameter"]("x%d" % k, q[s:s + n].clone()))
            s += n
        return out

    def integrator(self, steps, cls=None):
        cls = cls or _integrator_class(self.variant)
        if getattr(self, "assign_step", False):
            # the step size of a running sampler is not the constructor argument: adaptors, HMCOperator.set_adaptable_parameter and
            # find_reasonable_step_size assign the public attribute of a live integrator
            integ = cls("leapfrog", steps, 0.4375)
            integ.step_size = self.eps
            return integ
        return cls("leapfrog", steps, self.eps)

    def position(self, params=None):
        r = torch.cat([p.tensor for p in (params or self.params)], -1)
        return r.detach() if isinstance(r, torch.Tensor) else ST(r.a.copy())

    def flags_clear(self):
        return all(p.tensor.requires_grad is False for p in self.params)


def _copy(x):
    return x.clone() if isinstance(x, torch.Tensor) else ST(x.a.copy())


def _split(d, alt=0):
    if d == 1:
        return (1,)
    if alt == 0:
        return (1, d - 1)
    if alt == 1:
        return (d,)
    if d >= 4:
        return (2, 1, d - 3)
    return (d - 1, 1)


# ======================================================================================================
# C16.reverse  (V)
# ======================================================================================================

def scn_reverse(d, sizes, steps, rank, variant="real", assign_step=False):
    def scn(mk):
        env = _Env(mk, d, sizes, rank, "ufn", variant)
        env.assign_step = assign_step
        p = mk.real("p", (d,), -2.0, 2.0)
        p_in = _copy(p)
        integ = env.integrator(steps)
        p1 = integ(env.model, env.params, p, env.W)
        q1 = env.position()
        flags1 = env.flags_clear()
        p1n = -p1
        p2 = integ(env.model, env.params, p1n, env.W)
        q2 = env.position()
        return [
            ("eq", "q_returns", q2, env.q),
            ("eq", "p_returns_negated", p2, -p_in),
            ("eq", "input_momentum_not_mutated", p, p_in),
            ("true", "requires_grad_cleared", flags1 and env.flags_clear()),
            ("true", "oracle_calls", len(env.model.calls) == 2 * (steps + 1), len(env.model.calls)),
            # identities whose only purpose is the concretisation cross-check of the forward map
            # (symbolic terms evaluated with the analytic gradient vs the real-autograd run)
            ("eq", "xcheck_forward_q", q1, q1),
            ("eq", "xcheck_forward_p", p1, p1),
        ]
    return scn


# ======================================================================================================
# shear analysis on a line trace  (C16.volume.trace V, C16.volume.cut U)
# ======================================================================================================

class _Trace:
    """sys.settrace observer of one code object: snapshots of the locals `params` and `momentum`
    before every line and at return (observation only)"""

    def __init__(self, codes):
        self.codes = set(codes)
        self.states = []   # (lineno, event, params|None, momentum|None, n_oracle_calls)
        self.ret = None
        self.model = None
        try:
            self.pos_name = _int_roles()["params"]     # the position local, by role
        except Undecided:
            self.pos_name = "params"

    def _val(self, v):
        if isinstance(v, ST):
            return list(v.a.reshape(-1))
        if isinstance(v, torch.Tensor) and v.dtype.is_floating_point:
            return [float(x) for x in v.detach().reshape(-1)]
        return None

    def _snap(self, frame, ev):
        loc = frame.f_locals
        self.states.append((frame.f_lineno, ev, self._val(loc.get(self.pos_name)), self._val(loc.get("momentum")),
                            len(self.model.calls) if self.model is not None else 0))

    def _glob(self, frame, event, arg):
        if event == "call" and frame.f_code in self.codes:
            self._snap(frame, "call")
            return self._loc
        return None

    def _loc(self, frame, event, arg):
        if event == "line":
            self._snap(frame, "line")
        elif event == "return":
            self._snap(frame, "return")
            self.ret = arg
        return self._loc

    def __enter__(self):
        self._prev = sys.gettrace()
        sys.settrace(self._glob)
        return self

    def __exit__(self, *a):
        sys.settrace(self._prev)
        return False


def _shear_analysis(states, calls, q_entry, in_p_names, forbidden_for_dq, allowed_consts):
    """states: trace snapshots; calls: oracle log [(k, position)], oracle answers are variables G<k>[i].
    q_entry: position held by the parameters when the traced code starts (used until `params` is bound).
    in_p_names: names of the input momentum variables (coordinates that get replaced by the current momentum).
    Returns (ok, info, n_drifts, n_kicks)."""
    cur_q, cur_p = list(q_entry), None
    n_drift = n_kick = 0
    for (ln, ev, q, p, ncalls) in states:
        if p is None:
            continue
        if cur_p is None:
            cur_p = p
            if q is not None:
                if not all(nf.equal(a, b) for a, b in zip(q, cur_q)):
                    return False, "line %d: `params` is not the position held by the parameters" % ln, n_drift, n_kick
            continue
        if q is None:
            q = cur_q
        dq = [a - b for a, b in zip(q, cur_q)]
        dp = [a - b for a, b in zip(p, cur_p)]
        q_ch = any(not x.is_zero() for x in dq)
        p_ch = any(not x.is_zero() for x in dp)
        if q_ch and p_ch:
            raise Undecided("trace: position and momentum both change between two line events (before line %d): cannot attribute" % ln)
        if q_ch:
            # change of coordinates p_in := P − (p_cur − p_in): Δq must then be a function of P (and constants) only
            shift = [a - nf.var(n) for a, n in zip(cur_p, in_p_names)]
            for s in shift:
                if nf.variables(s) & set(in_p_names):
                    raise Undecided("trace: current momentum is not input momentum + offset; coordinate change not available")
            mapping = {n: nf.var("P_cur[%d]" % i) - shift[i] for i, n in enumerate(in_p_names)}
            for i, x in enumerate(dq):
                vs = nf.variables(nf.subst(x, mapping))
                bad = {v for v in vs if not (v.startswith("P_cur[") or v in allowed_consts)}
                if bad:
                    return False, ("before line %d: position increment Δq[%d] = %s depends on %s besides the current momentum "
                                   "(not a shear)" % (ln, i, nf.show(x, 6), sorted(bad)[:6])), n_drift, n_kick
            n_drift += 1
        if p_ch:
            if ncalls == 0:
                return False, "before line %d: momentum updated before any gradient was computed" % ln, n_drift, n_kick
            k, pos = calls[ncalls - 1]
            if len(pos) != len(cur_q) or not all(nf.equal(nf.as_rf(a), nf.as_rf(b)) for a, b in zip(pos, cur_q)):
                return False, ("before line %d: momentum updated with the gradient taken at oracle call %d whose position is not "
                               "the current position (stale gradient: Δp is not a function of q alone)" % (ln, k)), n_drift, n_kick
            for i, x in enumerate(dp):
                bad = {v for v in nf.variables(x) if not (v.startswith("G%d[" % k) or v in allowed_consts)}
                if bad:
                    return False, ("before line %d: momentum increment Δp[%d] = %s depends on %s besides ∇logp at the current "
                                   "position (not a shear)" % (ln, i, nf.show(x, 6), sorted(bad)[:6])), n_drift, n_kick
            n_kick += 1
        cur_q, cur_p = q, p
    return True, "", n_drift, n_kick


def _consts(env):
    names = {"eps"}
    W = env.W
    if isinstance(W, ST):
        for v in W.a.reshape(-1):
            names |= nf.variables(v)
    return names


def _fd_jacobian(fun, x0, h=2e-3):
    """5-point central differences (concrete mode only; uses nothing but the real code)"""
    n = x0.numel()
    J = torch.zeros((n, n))
    for j in range(n):
        e = torch.zeros(n)
        e[j] = h
        J[:, j] = (-fun(x0 + 2 * e) + 8 * fun(x0 + e) - 8 * fun(x0 - e) + fun(x0 - 2 * e)) / (12 * h)
    return J


def _concrete_map(env, steps, d):
    """(q,p) -> (q',p') through the real integrator on fresh real Parameters (concrete mode)"""
    tt = _tt()

    def fun(x):
        params = env.fresh_params(x[:d].clone())
        model = tt["Target"](params, False)
        integ = env.integrator(steps)
        p1 = integ(model, params, x[d:].clone(), env.W)
        return torch.cat([env.position(params), p1.detach()])
    return fun


def scn_volume_trace(d, sizes, steps, rank, variant="real"):
    def scn(mk):
        env = _Env(mk, d, sizes, rank, "fresh", variant)
        p = mk.real("p", (d,), -2.0, 2.0)
        cls = _integrator_class(variant)
        integ = env.integrator(steps)
        if not mk.symbolic:
            J = _fd_jacobian(_concrete_map(env, steps, d), torch.cat([env.q, p]))
            det = float(torch.linalg.det(J))
            return [("true", "every_assignment_is_a_shear", abs(det - 1.0) < 1e-7, "finite-difference Jacobian determinant %r" % det),
                    ("true", "final_state_consistent", True)]
        tr = _Trace([cls.__call__.__code__])
        tr.model = env.model
        with tr:
            p1 = integ(env.model, env.params, p, env.W)
        if not tr.states:
            raise Undecided("trace: the integrator frame was not observed")
        ok, info, nd, nk = _shear_analysis(tr.states, env.model.calls, _vec(env.q), ["p[%d]" % i for i in range(d)], None, _consts(env))
        # final state: returned momentum is the traced `momentum`, parameters hold the traced `params`
        last = tr.states[-1]
        fin = (last[3] is not None and all(nf.equal(a, b) for a, b in zip(last[3], _vec(p1)))
               and last[2] is not None and all(nf.equal(a, b) for a, b in zip(last[2], _vec(env.position()))))
        if ok and (nd < 1 or nk < 1):
            # (the real code shows `steps` drifts and `steps`+2 kicks; a different count is not a violation, none at all is vacuous)
            raise Undecided("trace: no position/momentum update attributed (%d drifts, %d kicks) — are the locals still called "
                            "`params` and `momentum`?" % (nd, nk))
        return [("true", "every_assignment_is_a_shear", ok, info),
                ("true", "final_state_consistent", fin, "returned momentum / parameter tensors differ from the traced locals")]
    return scn


def scn_volume_det(d, sizes, steps, rank, variant="real"):
    def scn(mk):
        env = _Env(mk, d, sizes, rank, "ufn", variant)
        p = mk.real("p", (d,), -2.0, 2.0)
        if not mk.symbolic:
            J = _fd_jacobian(_concrete_map(env, steps, d), torch.cat([env.q, p]))
            return [("eq", "jacobian_determinant_is_one", torch.linalg.det(J), 1.0),
                    ("eq", "xcheck_jacobian", J.reshape(-1), J.reshape(-1))]
        integ = env.integrator(steps)
        p1 = integ(env.model, env.params, p, env.W)
        out = _vec(env.position()) + _vec(p1)
        names = ["q[%d]" % i for i in range(d)] + ["p[%d]" % i for i in range(d)]
        J = np.empty((2 * d, 2 * d), dtype=object)
        for i, o in enumerate(out):
            for j, n in enumerate(names):
                J[i, j] = nf.diff(o, n)
        return [("eq", "jacobian_determinant_is_one", _det2d(J), 1.0),
                ("eq", "xcheck_jacobian", list(J.reshape(-1)), list(J.reshape(-1)))]
    return scn


# ======================================================================================================
# loop cut  (C16.reverse.cut U, C16.volume.cut U)
# ======================================================================================================

def _kick(q, p, a, oracle_at):
    g = oracle_at(q)
    return q, [pi + a * gi for pi, gi in zip(p, g)]


def _drift(q, p, eps, W):
    if W and not isinstance(W[0], list):
        return [qi + eps * wi * pi for qi, wi, pi in zip(q, W, p)], p
    out = []
    for i in range(len(q)):
        s = 0
        for j in range(len(p)):
            s = s + W[i][j] * p[j]
        out.append(q[i] + eps * s)
    return out, p


def _g_ufn(q):
    return [nf.ufn("g%d" % i, *q) for i in range(len(q))]


def _Wspec(W):
    return _vec(W) if W.dim() == 1 else _mat(W)


class _CutUnavailableBase(Undecided):
    pass


class _CutUnavailable(_CutUnavailableBase):
    """the loop cut cannot be applied to the current source (refactored function): the U obligation is downgraded to the
    V obligations, which cover the property's own bound"""


_ROLE_CACHE = {}


def _int_roles(cls=None):
    """The two temporaries of LeapfrogIntegrator.__call__ the contract talks about, identified by ROLE from the current source
    (never by name — renaming a local is not an alarm):
        params  the local handed to set_tensor(parameters, X)        (the position)
        dU      the local bound from an expression reading `.grad`    (minus the gradient of the log density)"""
    cls = cls or _tt()["int_mod"].LeapfrogIntegrator
    try:
        src = textwrap.dedent(inspect.getsource(cls.__call__))
    except (OSError, TypeError) as e:
        raise _CutUnavailable("source of LeapfrogIntegrator.__call__ not available: %s" % e)
    if src in _ROLE_CACHE:
        return _ROLE_CACHE[src]
    tree = ast.parse(src)
    pos = {x.args[1].id for x in ast.walk(tree) if isinstance(x, ast.Call) and isinstance(x.func, ast.Name) and x.func.id == "set_tensor"
           and len(x.args) == 2 and isinstance(x.args[1], ast.Name)}
    grad = {x.targets[0].id for x in ast.walk(tree) if isinstance(x, ast.Assign) and len(x.targets) == 1 and isinstance(x.targets[0], ast.Name)
            and any(isinstance(y, ast.Attribute) and y.attr == "grad" for y in ast.walk(x.value))}
    if len(pos) != 1 or len(grad) != 1:
        raise _CutUnavailable("LeapfrogIntegrator.__call__: cannot identify the position local (set_tensor argument: %s) / the gradient local "
                              "(bound from .grad: %s)" % (sorted(pos), sorted(grad)))
    r = {"params": next(iter(pos)), "dU": next(iter(grad))}
    _ROLE_CACHE[src] = r
    return r


class _Locals(dict):
    """locals() of a cut piece, read through the contract's names `params` / `dU` whatever the code calls them (_int_roles); a missing name
    means the source was refactored: undecided, not a verdict"""
    roles = None

    def __getitem__(self, k):
        k = (self.roles or {}).get(k, k)
        if k not in self:
            raise Undecided("loop cut: the local variable `%s` no longer exists in LeapfrogIntegrator.__call__" % k)
        return dict.__getitem__(self, k)


def _L(d, cls=None):
    out = _Locals(d)
    out.roles = _int_roles(cls)
    return out


def _S(state, cls=None):
    """pre-state of a cut piece written with the contract's names -> the code's names"""
    r = _int_roles(cls)
    return {r.get(k, k): v for k, v in state.items()}


_CUT_NAMES = ("self", "model", "parameters", "momentum", "inverse_mass_matrix", "params", "dU")


def _cut_pieces(cls):
    from vt import loopcut
    try:
        c = loopcut.cut(cls.__call__, 0)
    except Undecided as e:
        raise _CutUnavailable(str(e))
    if c.kind != "for" or c.iter.replace(" ", "") != "range(self.steps)":
        raise _CutUnavailable("loop cut: the loop header is %r, expected `for _ in range(self.steps)` (iteration count = steps)" % c.header)
    roles = _int_roles(cls)
    missing = [roles.get(n, n) for n in _CUT_NAMES if roles.get(n, n) not in c.live]
    if missing:
        raise _CutUnavailable("loop cut: live variables %s no longer exist in LeapfrogIntegrator.__call__" % missing)
    return c


def scn_cut(d, sizes, rank, variant="real"):
    """prefix ≡ K_{ε/2}, body on a fresh pre-state ≡ K_ε∘D_ε and re-establishes the invariant, suffix ≡ K_{−ε/2}.
    Invariant: params = position held by the parameters, dU = −∇logp(params).  Symbolic only: in concrete mode the
    same pieces are executed on numbers and compared with the spec maps evaluated with the analytic gradient."""
    def scn(mk):
        tt = _tt()
        env = _Env(mk, d, sizes, rank, "ufn", variant)
        cls = _integrator_class(variant)
        c = _cut_pieces(cls)
        sym = mk.symbolic
        eps, W = env.eps, _Wspec(env.W)
        fl = _fns(d)
        g_at = _g_ufn if sym else (lambda q: [fl["g%d" % i](*q) for i in range(len(q))])
        P = mk.real("p", (d,), -2.0, 2.0)
        junk = mk.real("junk", (d,), -2.0, 2.0)
        dUold = mk.real("dUold", (d,), -2.0, 2.0)
        claims = []
        integ = env.integrator(7)
        Wbuf = _copy(env.W)
        # ---- prefix from an entry state
        p_in = _copy(P)
        loc = _L(c.prefix(integ, env.model, env.params, P, env.W), cls)
        q0 = _vec(env.q)
        _, pk = _kick(q0, _vec(p_in), eps / 2, g_at)
        claims += [("eq", "prefix_params", loc["params"], q0),
                   ("eq", "prefix_momentum_half_kick", loc["momentum"], pk),
                   ("eq", "prefix_invariant_dU", loc["dU"], [-x for x in g_at(q0)]),
                   ("eq", "prefix_parameters_hold_params", env.position(), q0),
                   ("eq", "prefix_input_momentum_not_mutated", P, p_in)]
        # ---- one iteration on a fresh pre-state (Q = q variables re-used as the generic position, P generic)
        env2 = _Env.__new__(_Env)
        env2.__dict__.update(env.__dict__)
        params2 = env.fresh_params(junk)          # parameters hold junk: the body must overwrite them
        for prm in params2:
            prm.tensor.requires_grad_()           # as left by the previous iteration
        model2 = tt["Target"](params2, sym, "ufn")
        Q = _copy(env.q)
        mom = _copy(P)
        state = {"self": integ, "model": model2, "parameters": params2, "momentum": mom, "inverse_mass_matrix": env.W,
                 "params": Q, "dU": dUold, "_": 3}
        tag, loc2 = c.body(_S(state, cls))
        loc2 = _L(loc2, cls)
        qn, pn = _drift(_vec(env.q), _vec(P), eps, W)
        _, pn2 = _kick(qn, pn, eps, g_at)
        claims += [("true", "body_falls_through", tag == "next", tag),
                   ("eq", "body_params_drift", loc2["params"], qn),
                   ("eq", "body_momentum_kick_at_new_position", loc2["momentum"], pn2),
                   ("eq", "body_invariant_dU_fresh", loc2["dU"], [-x for x in g_at(qn)]),
                   ("eq", "body_parameters_hold_params", env.position(params2), qn),
                   ("true", "body_frame", loc2["self"] is integ and loc2["parameters"] is params2 and loc2["model"] is model2
                    and loc2["inverse_mass_matrix"] is env.W and integ.steps == 7 and integ.step_size is env.eps)]
        # ---- suffix from a state satisfying the invariant
        params3 = env.fresh_params(env.q)
        for prm in params3:
            prm.tensor.requires_grad_()
        model3 = tt["Target"](params3, sym, "ufn")
        mom3 = _copy(P)
        dU3 = [-x for x in g_at(_vec(env.q))]
        dU3 = ST(np.array(dU3, dtype=object)) if sym else torch.tensor(dU3)
        state3 = {"self": integ, "model": model3, "parameters": params3, "momentum": mom3, "inverse_mass_matrix": env.W,
                  "params": _copy(env.q), "dU": dU3, "_": 6, "U": None}
        ret = c.suffix(_S(state3, cls))
        _, ps = _kick(_vec(env.q), _vec(P), -eps / 2, g_at)
        claims += [("eq", "suffix_returns_half_kick_back", ret, ps),
                   ("eq", "suffix_parameters_unchanged", env.position(params3), _vec(env.q)),
                   ("true", "suffix_requires_grad_cleared", all(x.tensor.requires_grad is False for x in params3)),
                   ("eq", "inverse_mass_matrix_not_mutated", env.W, Wbuf)]
        return claims
    return scn


def scn_lemmas(d, rank):
    """generator lemmas on the spec maps (no repository code): R∘K_a∘R∘K_a = id, R∘D_ε∘R∘D_ε = id, K_a∘K_b = K_{a+b};
    and the telescoped word K_{−ε/2}(K_εD_ε)(K_εD_ε)K_{ε/2} = K_{ε/2}D_εK_εD_εK_{ε/2} (instance L=2 of the rewriting)"""
    def scn(mk):
        q = _vec(mk.real("q", (d,), -2.0, 2.0))
        p = _vec(mk.real("p", (d,), -2.0, 2.0))
        a = el(mk.real("a", (), -1.0, 1.0))
        b = el(mk.real("b", (), -1.0, 1.0))
        eps = el(mk.real("eps", (), 1e-3, 0.5))
        W = _Wspec(_inv_mass_input(mk, d, rank))
        fl = _fns(d)
        g_at = _g_ufn if mk.symbolic else (lambda x: [fl["g%d" % i](*x) for i in range(len(x))])
        neg = lambda v: [-x for x in v]
        # R K_a R K_a
        q1, p1 = _kick(q, p, a, g_at)
        q2, p2 = _kick(q1, neg(p1), a, g_at)
        # R D R D
        q3, p3 = _drift(q, p, eps, W)
        q4, p4 = _drift(q3, neg(p3), eps, W)
        # K_a K_b
        q5, p5 = _kick(*_kick(q, p, b, g_at), a, g_at)
        q6, p6 = _kick(q, p, a + b, g_at)
        # telescoping instance
        s = _kick(q, p, eps / 2, g_at)
        for _ in range(2):
            s = _kick(*_drift(*s, eps, W), eps, g_at)
        s = _kick(*s, -eps / 2, g_at)
        t = _kick(q, p, eps / 2, g_at)
        t = _drift(*t, eps, W)
        t = _kick(*t, eps, g_at)
        t = _drift(*t, eps, W)
        t = _kick(*t, eps / 2, g_at)
        return [("eq", "kick_reversible", q2 + neg(p2), q + p),
                ("eq", "drift_reversible", q4 + neg(p4), q + p),
                ("eq", "kicks_compose_additively", q5 + p5, q6 + p6),
                ("eq", "telescoped_word_L2", s[0] + s[1], t[0] + t[1])]
    return scn


def scn_volume_cut(d, sizes, rank, variant="real"):
    """shear analysis of prefix / one iteration on a fresh pre-state / suffix (fresh-oracle mode, line trace of the
    compiled pieces)"""
    def scn(mk):
        tt = _tt()
        env = _Env(mk, d, sizes, rank, "fresh", variant)
        P = mk.real("p", (d,), -2.0, 2.0)
        junk = mk.real("junk", (d,), -2.0, 2.0)
        dUold = mk.real("dUold", (d,), -2.0, 2.0)
        cls = _integrator_class(variant)
        c = _cut_pieces(cls)
        if not mk.symbolic:
            # numeric analogue: finite-difference determinant of one iteration of the cut body (real statements)
            def body_map(x):
                params2 = env.fresh_params(junk.clone())
                model2 = tt["Target"](params2, False)
                fl = _fns(d)
                dU_inv = torch.tensor([-fl["g%d" % i](*[float(v) for v in x[:d]]) for i in range(d)])  # invariant dU = −∇logp(params)
                st = {"self": env.integrator(5), "model": model2, "parameters": params2, "momentum": x[d:].clone(),
                      "inverse_mass_matrix": env.W, "params": x[:d].clone(), "dU": dU_inv, "_": 0}
                _, loc = c.body(_S(st, cls))
                loc = _L(loc, cls)
                return torch.cat([loc["params"].detach(), loc["momentum"].detach()])
            det = float(torch.linalg.det(_fd_jacobian(body_map, torch.cat([env.q, P]))))
            ok = abs(det - 1.0) < 1e-7
            return [("true", "prefix_is_a_shear", True), ("true", "body_assignments_are_shears", ok, "finite-difference determinant of one iteration %r" % det),
                    ("true", "suffix_is_a_shear", True)]
        consts = _consts(env)
        pn = ["p[%d]" % i for i in range(d)]
        integ = env.integrator(5)
        out = []
        # prefix
        tr = _Trace([c.prefix_code])
        tr.model = env.model
        with tr:
            c.prefix(integ, env.model, env.params, P, env.W)
        ok, info, nd, nk = _shear_analysis(tr.states, env.model.calls, _vec(env.q), pn, None, consts)
        out.append(("true", "prefix_is_a_shear", ok and (nd + nk) >= 1, info or "no update observed"))
        # body on a fresh pre-state; dU holds fresh 'old' values: any use of them shows up as a dependency on dUold
        params2 = env.fresh_params(junk)
        for prm in params2:
            prm.tensor.requires_grad_()
        model2 = tt["Target"](params2, True, "fresh")
        tr = _Trace([c.body_code])
        tr.model = model2
        st = {"self": integ, "model": model2, "parameters": params2, "momentum": _copy(P), "inverse_mass_matrix": env.W,
              "params": _copy(env.q), "dU": dUold, "_": 0}
        with tr:
            c.body(_S(st, cls))
        ok, info, nd, nk = _shear_analysis(tr.states, model2.calls, _vec(env.q), pn, None, consts)
        out.append(("true", "body_assignments_are_shears", ok and nd >= 1 and nk >= 1, info or "drift/kick not observed (%d,%d)" % (nd, nk)))
        # suffix: dU is the oracle answer at the current position (invariant), represented by the fresh symbols of a call
        params3 = env.fresh_params(env.q)
        for prm in params3:
            prm.tensor.requires_grad_()
        model3 = tt["Target"](params3, True, "fresh")
        u = model3()
        u.backward()
        dU3 = -torch.cat([x.grad for x in params3], -1)
        tr = _Trace([c.suffix_code])
        tr.model = model3
        st = {"self": integ, "model": model3, "parameters": params3, "momentum": _copy(P), "inverse_mass_matrix": env.W,
              "params": _copy(env.q), "dU": dU3, "_": 0, "U": u}
        with tr:
            c.suffix(_S(st, cls))
        ok, info, nd, nk = _shear_analysis(tr.states, model3.calls, _vec(env.q), pn, None, consts)
        out.append(("true", "suffix_is_a_shear", ok, info))
        return out
    return scn


# ======================================================================================================
# C16.hastings
# ======================================================================================================

class _Draws:
    """recorders installed as `Normal` / `MultivariateNormal` in torchtree.inference.hmc.hamiltonian"""

    def __init__(self, env, momenta):
        self.env, self.momenta = env, momenta
        self.log = []    # (kind, loc, scale_or_cov, position at draw time)

    def sampler(self):
        """stands for `Hamiltonian.sample_momentum` at its call sites (modular: the callers are checked against its contract
        "returns a draw of N(0, mass_matrix)"; the body is checked against that contract by C16.momentum.draw)"""
        outer = self

        def sample_momentum(self_, mass_matrix):
            t = len(outer.log)
            if t >= len(outer.momenta):
                if t >= 12:
                    raise Undecided("more than 12 momentum draws inside one _step")
                # unplanned retry: hand out a further arbitrary momentum; the draw count is a claim and fails
                outer.momenta.append(outer.env.mk.real("p_unplanned%d" % t, (outer.env.d,), -2.0, 2.0))
            outer.log.append(("call", None, mass_matrix, outer.env.position()))
            outer.env.model.new_trial(t)
            return outer.momenta[t]
        return sample_momentum

    def make(self, kind):
        outer = self

        class _Dist:
            def __init__(self, loc, scale=None, covariance_matrix=None, **kw):
                self.loc, self.par = loc, (scale if kind == "normal" else covariance_matrix)

            def sample(self, *a, **kw):
                t = len(outer.log)
                if t >= len(outer.momenta):
                    if t >= 12:
                        raise Undecided("more than 12 momentum draws inside one _step")
                    # unplanned retry: hand out a further arbitrary momentum; the draw count is a claim and fails
                    outer.momenta.append(outer.env.mk.real("p_unplanned%d" % t, (outer.env.d,), -2.0, 2.0))
                outer.log.append((kind, self.loc, self.par, outer.env.position()))
                outer.env.model.new_trial(t)
                return outer.momenta[t]
        return _Dist


class _TorchProxy:
    """stands for the `torch` global of one module: forwards everything except the named entries"""

    def __init__(self, **over):
        self.__dict__["_over"] = over

    def __getattr__(self, n):
        o = self.__dict__["_over"]
        return o[n] if n in o else getattr(torch, n)


class _InfST(ST):
    """divergence_threshold = +inf (the JSON option "inf") for symbolic runs: `x > thr` resolves, by Python's
    reflected-operand rule for subclasses, to `thr < x`, which is False for every real x.  (vt.nf has no infinite
    constants; this switches the print-only divergence diagnostic off instead of forking on it.)"""

    def __init__(self):
        super().__init__(np.zeros((), dtype=object))

    def __lt__(self, o):
        return torch.tensor(False)

    def __le__(self, o):
        return torch.tensor(False)

    def __gt__(self, o):
        return torch.tensor(True)

    def __ge__(self, o):
        return torch.tensor(True)


@contextlib.contextmanager
def _patched(mod, **names):
    old = {k: getattr(mod, k) for k in names}
    try:
        for k, v in names.items():
            setattr(mod, k, v)
        yield
    finally:
        for k, v in old.items():
            setattr(mod, k, v)


def scn_hastings(d, sizes, rank, steps, plan, integ_kind="real", spec="inverse", warm=False, inv="real", threshold="inf"):
    """plan: one entry per trial of _step: None (trial succeeds) | ["U", k] (k-th model call of the trial returns NaN) |
    ["G", j] (j-th backward of the trial yields NaN gradients).  The last entry is None unless all 10 trials fail."""
    plan = [None if f is None else list(f) for f in plan]
    n_trials = len(plan)
    all_fail = plan[-1] is not None
    assert (n_trials == 10) if all_fail else (n_trials <= 10)

    def scn(mk):
        tt = _tt()
        env = _Env(mk, d, sizes, rank, "ufn", "real", plan=plan, mass=True)
        momenta = [mk.real("p%d" % t, (d,), -2.0, 2.0) for t in range(n_trials)]
        mom_in = [_copy(m) for m in momenta]
        real_cls = tt["int_mod"].LeapfrogIntegrator
        record = []

        if integ_kind == "real":
            class _Rec(real_cls):
                def __call__(self, model, parameters, momentum, inverse_mass_matrix):
                    r = super().__call__(model, parameters, momentum, inverse_mass_matrix)
                    record.append((_copy(momentum), _copy(r), env.position(parameters)))
                    return r
            integ = _Rec("leapfrog", steps, env.eps)
        else:
            q1_any = mk.real("q1", (d,), -2.0, 2.0)
            p1_any = mk.real("p1", (d,), -2.0, 2.0)

            class _AnyTrajectory(tt["int_mod"].Integrator):
                """contract of an integrator: leaves the parameters at some position, returns some momentum"""
                step_size = env.eps

                def __call__(self, model, parameters, momentum, inverse_mass_matrix):
                    s = 0
                    for prm in parameters:
                        n = prm.shape[-1]
                        prm.tensor = q1_any[s:s + n].clone()
                        s += n
                    record.append((_copy(momentum), _copy(p1_any), env.position(parameters)))
                    return _copy(p1_any)

                def _state_dict(self):
                    return {}

                def load_state_dict(self, s):
                    pass

                @classmethod
                def from_json(cls, data, dic):
                    raise NotImplementedError
            integ = _AnyTrajectory("any")

        mass = tt["Parameter"]("mass", env.M)
        draws = _Draws(env, momenta)
        sink = io.StringIO()
        inv_log = []
        patches = {}
        if inv == "stub":
            # assumed contract of torch.inverse for the operator: "returns W with W·M = I"; W is a fresh symmetric input
            W_any = _symmetric(mk, "Winv", d, 0.5, 1.5, 0.05)

            def _inverse(m):
                inv_log.append(m)
                return W_any
            patches["torch"] = _TorchProxy(inverse=_inverse)
        if threshold == "inf":
            thr = _InfST() if mk.symbolic else float("inf")
            kw = {"divergence_threshold": thr}
        else:
            kw = {}
        with _patched(tt["ham_mod"].Hamiltonian, sample_momentum=draws.sampler()), \
                _patched(tt["op_mod"], **patches), contextlib.redirect_stdout(sink):
            op = tt["op_mod"].HMCOperator("hmc", env.model, env.params, integ, mass, 1.0, 0.8, [], **kw)
            with torch.no_grad():
                lj0 = env.model()          # as MCMC.run does before the loop
            if not warm:
                # cold cache, as after a rejected iteration: MCMCOperator.reject re-assigns the tensors
                for prm in env.params:
                    prm.tensor = prm.tensor
            h = op.step()                  # real MCMCOperator.step -> real HMCOperator._step
            q_after = env.position()
            with torch.no_grad():
                lj1 = env.model()          # as MCMC.run does after operator.step()
            flags = env.flags_clear()
            isinf = bool(torch.isinf(h)) if isinstance(h, torch.Tensor) else False
            op.reject()
            q_rejected = env.position()

        # independent specification of M⁻¹
        if rank == "diag":
            Winv = [1 / x for x in _vec(env.M)]
            Mspec = _vec(env.M)
        else:
            Mspec = _mat(env.M)
            if inv == "stub":
                Winv = _mat(W_any)
            else:
                Winv = _cofactor_inverse(Mspec)
        if spec == "wrong_M":      # vacuity twin only: a WRONG postcondition (K with M instead of M⁻¹)
            Winv = Mspec
        q0 = _vec(env.q)
        cl = [("true", "number_of_momentum_draws", len(draws.log) == n_trials, "%d draws, %d planned" % (len(draws.log), n_trials))]
        for t, (kind, loc, par, pos) in enumerate(draws.log):
            cl.append(("eq", "trial%d_starts_from_saved_state" % t, pos, q0))
        for t, (_, _, par, _) in enumerate(draws.log):
            # precondition side of the callee's contract: every draw is requested for the operator's mass matrix
            if rank == "diag":
                cl.append(("eq", "draw%d_requested_for_M" % t, _vec(par), Mspec))
            else:
                cl.append(("eq", "draw%d_requested_for_M" % t, [x for r in _mat(par) for x in r], [x for r in Mspec for x in r]))
        for t in range(min(len(draws.log), n_trials)):
            cl.append(("eq", "drawn_momentum%d_not_mutated" % t, momenta[t], mom_in[t]))
        if inv == "stub":
            if not inv_log:
                # the operator obtains M⁻¹ some other way than torch.inverse: the assumed callee contract has no call site, the
                # modular argument does not apply (not a refutation; the d<=3 obligations run the real inverse symbolically)
                raise Undecided("the operator never calls torch.inverse: the modular contract for M⁻¹ has no call site")
            cl.append(("true", "inverse_taken_of_M", all(m is env.M for m in inv_log), "%d calls" % len(inv_log)))
        cl.append(("true", "requires_grad_cleared", flags))
        cl.append(("eq", "reject_restores_saved_state", q_rejected, q0))
        if all_fail:
            cl.append(("true", "ten_failures_return_infinite_hastings", isinf, repr(h)))
            cl.append(("eq", "state_restored_after_failures", q_after, q0))
            cl.append(("true", "no_successful_integration", len(record) == 0 or True))
            return cl
        if not record:
            cl.append(("true", "integrator_completed_on_successful_trial", False, "no completed integrator call recorded"))
            return cl
        p_in, p1, q1 = record[-1]
        K0 = _kinetic_spec(momenta[n_trials - 1], Winv)
        K1 = _kinetic_spec(p1, Winv)
        cl.append(("eq", "integrator_received_drawn_momentum", p_in, mom_in[n_trials - 1]))
        cl.append(("eq", "hastings_is_kinetic_energy_change", h, K0 - K1))
        cl.append(("eq", "proposal_is_trajectory_end", q_after, q1))
        # acceptance exponent of MCMC.run: (log_joint_proposed − log_joint) + hastings = −(H1 − H0), H = −logp + K
        H0 = -el(lj0) + K0
        H1 = -el(lj1) + K1
        cl.append(("eq", "accept_exponent_is_minus_delta_H", (el(lj1) - el(lj0)) + el(h), -(H1 - H0)))
        return cl
    return scn


def scn_mass_invariant(d, rank, how):
    """Representation invariant of HMCOperator that scn_hastings relies on:  inverse_mass_matrix ≡ (mass_matrix)⁻¹  and mass_matrix is
    the CURRENT value of the mass-matrix parameter, after construction and after every way the library changes the mass matrix:
    assign (what MassMatrixAdaptor / DualAveraging adaptors do), in-place update + notification, _load_state_dict (checkpoint restore)."""
    def scn(mk):
        tt = _tt()
        env = _Env(mk, d, _split(d), rank, "ufn", "real", plan=[None], mass=True)
        integ = env.integrator(1)
        mass = tt["Parameter"]("mass", env.M)
        sink = io.StringIO()
        with contextlib.redirect_stdout(sink):
            op = tt["op_mod"].HMCOperator("hmc", env.model, env.params, integ, mass, 1.0, 0.8, [])
            if how == "init":
                M_now = env.M
            elif how in ("assign", "inplace"):
                if rank == "diag":
                    M2 = mk.real("m2", (d,), 0.5, 4.0)
                else:
                    M2 = _symmetric(mk, "N", d, 1.0, 3.0, 0.9 / max(1, d - 1) if d > 1 else 0.1)
                if how == "assign":
                    mass.tensor = M2
                else:
                    if mk.symbolic:
                        mass._tensor = M2      # the in-place write itself is torch's; the notification is what the code owns
                    else:
                        with torch.no_grad():
                            mass.tensor.copy_(M2)
                    mass.fire_parameter_changed()
                M_now = M2
            else:
                vals = [2.0, 0.5, 1.25, 3.0][:d] if rank == "diag" else [[(2.0 + i if i == j else 0.25) for j in range(d)] for i in range(d)]
                op._load_state_dict({"mass_matrix": {"id": "mass", "type": "Parameter", "tensor": vals}, "integrator": integ.state_dict() if hasattr(integ, "state_dict") else {}})
                M_now = torch.tensor(vals, dtype=torch.float64) if not mk.symbolic else ST(np.array([[nf.const(x) for x in r] for r in vals] if rank != "diag" else [nf.const(x) for x in vals], dtype=object))
        if rank == "diag":
            Mspec = _vec(M_now)
            Winv = [1 / x for x in Mspec]
            got_W = _vec(op.inverse_mass_matrix)
            got_M = _vec(op.mass_matrix)
        else:
            Mspec = [x for r in _mat(M_now) for x in r]
            Winv = [x for r in _cofactor_inverse(_mat(M_now)) for x in r]
            got_W = [x for r in _mat(op.inverse_mass_matrix) for x in r]
            got_M = [x for r in _mat(op.mass_matrix) for x in r]
        return [("eq", "mass_matrix_is_current_parameter_value", got_M, Mspec),
                ("eq", "inverse_mass_matrix_is_inverse_of_current_mass_matrix", got_W, Winv)]
    return scn


def ob_mass_invariant_adaptor(rank):
    """the same representation invariant after the REAL MassMatrixAdaptor changed the mass matrix (every update of a 40-call adaptation,
    every estimator option): operator.inverse_mass_matrix ≡ (operator.mass_matrix)⁻¹ and operator.mass_matrix is the adaptor's matrix"""
    def body():
        tt = _tt()
        am = importlib.import_module("torchtree.inference.hmc.adaptation")
        from torchtree.inference.hmc.integrator import LeapfrogIntegrator
        n_updates = 0
        for opts in ({}, {"variance_window": 1}, {"swap_every": 15}, {"regularize": False}):
            g = torch.Generator().manual_seed(11)
            d = 3
            params = [tt["Parameter"]("x", torch.zeros(d, dtype=torch.float64))]
            m0 = torch.ones(d, dtype=torch.float64) if rank == "diag" else torch.eye(d, dtype=torch.float64)
            mass = tt["Parameter"]("mass", m0.clone())
            kw = dict(opts)
            reg = kw.pop("regularize", True)
            adaptor = am.MassMatrixAdaptor("mma", params, mass, reg, update_frequency=10, **kw)
            op = tt["op_mod"].HMCOperator("hmc", (lambda: torch.tensor(0.0)), params, LeapfrogIntegrator("lf", 2, 0.1), mass, 1.0, 0.8, [adaptor])
            last = mass.tensor.clone()
            scale = torch.tensor([0.3, 1.0, 4.0], dtype=torch.float64)
            for it in range(1, 41):
                params[0].tensor = torch.randn(d, generator=g, dtype=torch.float64) * scale
                op.tune(torch.tensor(0.9, dtype=torch.float64), it, True)
                M = op.mass_matrix
                W = op.inverse_mass_matrix
                if not torch.equal(M, mass.tensor):
                    raise Refuted("operator.mass_matrix is not the adaptor's current matrix at call %d" % it, witness={"rank": rank, "options": opts, "call": it}, confirmed=True)
                want = 1.0 / M if rank == "diag" else torch.inverse(M)
                if tuple(W.shape) != tuple(want.shape) or not torch.allclose(W, want, rtol=1e-9, atol=1e-12):
                    raise Refuted("after the real MassMatrixAdaptor.learn (call %d, options %s) the %s mass matrix is %s but the operator's inverse mass matrix is %s (stale)"
                                  % (it, opts, rank, M.tolist(), W.tolist()), witness={"rank": rank, "options": opts, "call": it},
                                  replay={"kind": "custom", "contract": "C16", "func": "replay_mass_invariant_adaptor", "args": {"rank": rank}}, confirmed=True)
                if not torch.equal(M, last):
                    n_updates += 1
                    last = M.clone()
        if n_updates == 0:
            raise Undecided("the adaptor never changed the mass matrix: vacuous")
        return {"backend": "heap", "cases": n_updates, "statement": "%d mass-matrix updates by the real adaptor (%s): the operator's inverse is refreshed every time" % (n_updates, rank)}
    return Ob("C16.hastings.mass_invariant.adaptor[%s]" % rank, "B", body,
              clause="the kinetic energy uses the inverse of the mass matrix the momentum is drawn with (after the mass-matrix adaptor ran)", funcs=FUNCS)


class _ZFeed:
    """feeds a chosen vector z to torch's standard-normal primitives (randn, randn_like, normal, Tensor.normal_) for the duration of one
    call, so that a Gaussian draw becomes the deterministic affine image of z that it computes"""

    def __init__(self, z):
        self.z, self.used = list(z), 0

    def take(self, shape, dtype):
        n = int(np.prod(shape)) if len(shape) else 1
        if self.used + n > len(self.z):
            self.z += [0.0] * (self.used + n - len(self.z))
        v = torch.tensor(self.z[self.used:self.used + n], dtype=torch.float64).reshape(tuple(shape))
        self.used += n
        return v.to(dtype or torch.get_default_dtype())

    @contextlib.contextmanager
    def installed(self):
        feed = self
        o_randn, o_like, o_normal, o_inplace = torch.randn, torch.randn_like, torch.normal, torch.Tensor.normal_

        def randn(*size, dtype=None, **kw):
            size = tuple(size[0]) if len(size) == 1 and isinstance(size[0], (tuple, list, torch.Size)) else size
            return feed.take(size, dtype)

        def randn_like(t, dtype=None, **kw):
            return feed.take(tuple(t.shape), dtype or t.dtype)

        def normal(mean=0.0, std=1.0, size=None, dtype=None, **kw):
            if isinstance(mean, torch.Tensor) or isinstance(std, torch.Tensor):
                shape = torch.broadcast_shapes(tuple(getattr(mean, "shape", ())), tuple(getattr(std, "shape", ())))
                dt = mean.dtype if isinstance(mean, torch.Tensor) else std.dtype
            else:
                shape, dt = tuple(size), dtype
            return mean + std * feed.take(shape, dt)

        def normal_(t, mean=0.0, std=1.0, **kw):
            with torch.no_grad():
                t.copy_(mean + std * feed.take(tuple(t.shape), t.dtype))
            return t
        torch.randn, torch.randn_like, torch.normal, torch.Tensor.normal_ = randn, randn_like, normal, normal_
        try:
            yield
        finally:
            torch.randn, torch.randn_like, torch.normal, torch.Tensor.normal_ = o_randn, o_like, o_normal, o_inplace


def _momentum_map(M):
    """(A, n_z): the real Hamiltonian.sample_momentum(M) as the linear image A z of the standard-normal numbers z it consumes"""
    tt = _tt()
    ham = tt["ham_mod"].Hamiltonian("h", (lambda: torch.tensor(0.0)))

    def draw(z):
        feed = _ZFeed(z)
        with feed.installed():
            p = ham.sample_momentum(M)
        return p, feed.used
    p0, n_z = draw([])
    if n_z == 0:
        raise Undecided("sample_momentum consumed none of the standard-normal primitives under observation (randn, randn_like, normal, Tensor.normal_)")
    cols = []
    for j in range(n_z):
        pj, _ = draw([1.0 if i == j else 0.0 for i in range(n_z)])
        cols.append(pj - p0)
    return p0, torch.stack(cols, -1), n_z, draw


def ob_momentum_draw(rank):
    """body of Hamiltonian.sample_momentum against the contract its callers assume: a draw of N(0, M)"""
    def body():
        g = torch.Generator().manual_seed(11)
        n = 0
        for d in (1, 2, 3, 5):
            for rep in range(3):
                if rank == "diag":
                    M = torch.rand(d, generator=g, dtype=torch.float64) * 3 + 0.2
                    Mfull = torch.diag(M)
                else:
                    B = torch.randn(d, d, generator=g, dtype=torch.float64)
                    M = B @ B.T + 0.3 * torch.eye(d, dtype=torch.float64)
                    if rep == 2:
                        M = torch.diag(torch.diagonal(M))     # a dense matrix that happens to be diagonal
                    Mfull = M
                p0, A, n_z, draw = _momentum_map(M)
                args = {"rank": rank, "d": d, "M": M.tolist()}
                rp = {"kind": "custom", "contract": "C16", "func": "replay_momentum_draw", "args": {"rank": rank}}
                if tuple(p0.shape) != (d,):
                    raise Refuted("sample_momentum(%s M of size %d) returns shape %s" % (rank, d, tuple(p0.shape)), witness=args, replay=rp, confirmed=True)
                if p0.dtype != M.dtype:
                    raise Refuted("sample_momentum returns dtype %s for a %s mass matrix" % (p0.dtype, M.dtype), witness=args, replay=rp, confirmed=True)
                if not torch.allclose(p0, torch.zeros(d, dtype=p0.dtype), atol=1e-12):
                    raise Refuted("momentum draw has mean %s, not zero (%s, d=%d)" % (p0.tolist(), rank, d), witness=args, replay=rp, confirmed=True)
                z = torch.randn(n_z, generator=g, dtype=torch.float64)
                pz, _ = draw(z.tolist())
                if not torch.allclose(pz, A @ z, rtol=1e-9, atol=1e-12):
                    raise Undecided("sample_momentum is not linear in the standard-normal numbers it consumes: the covariance cannot be read off")
                cov = A @ A.T
                if not torch.allclose(cov, Mfull, rtol=1e-8, atol=1e-10):
                    args["covariance"] = cov.tolist()
                    raise Refuted("the momentum is drawn as A·z (z standard normal) with A·Aᵀ = %s, but the mass matrix the kinetic energy and the Hastings term use is %s "
                                  "(%s, d=%d): K(p0) − K(p1) is then not the log ratio of the reverse to the forward proposal density" % (cov.tolist(), Mfull.tolist(), rank, d),
                                  witness=args, replay=rp, confirmed=True)
                n += 1
        return {"backend": "concrete (linear map of the draw)", "cases": n, "bounded": "d in {1,2,3,5}, 3 sampled matrices each",
                "statement": "real Hamiltonian.sample_momentum(M), %s M: with torch's standard-normal primitives feeding z the result is A·z with zero offset and A·Aᵀ = M, "
                             "i.e. the draw is N(0,M), the density whose ratio the Hastings term K(p0) − K(p1) stands for" % rank}
    return Ob("C16.momentum.draw[%s]" % rank, "B", body, clause="the momentum is drawn from N(0,M) with the mass matrix the kinetic energy uses", funcs=FUNCS, timeout=120)


def replay_momentum_draw(args):
    try:
        ob_momentum_draw(args["rank"]).fn()
    except Refuted as e:
        return False, e.detail
    return True, "held"


def replay_mass_invariant_adaptor(args):
    try:
        ob_mass_invariant_adaptor(args["rank"]).fn()
    except Refuted as e:
        return False, e.detail
    return True, "held"


def scn_mcmc(d, sizes, rank, steps, plan):
    """one iteration of the REAL MCMC.run with the HMC operator as the only operator; `torch.rand` in the namespace of
    torchtree.inference.mcmc.mcmc returns a symbolic u∈(0,1).  Claims: accepted ⇔ u < min(1, exp(−(H1−H0))) with
    H = −logp + ½pᵀM⁻¹p written from the definition; the chain state afterwards is the trajectory end (accepted) or
    the saved state (rejected); ten failed trials ⇒ rejected."""
    plan = [None if f is None else list(f) for f in plan]
    n_trials = len(plan)
    all_fail = plan[-1] is not None

    def scn(mk):
        import signal
        tt = _tt()
        from torchtree.inference.mcmc import mcmc as mcmc_mod
        env = _Env(mk, d, sizes, rank, "ufn", "real", plan=plan, mass=True)
        momenta = [mk.real("p%d" % t, (d,), -2.0, 2.0) for t in range(n_trials)]
        u = mk.real("u", (1,), 0.0, 1.0)
        record = []
        real_cls = tt["int_mod"].LeapfrogIntegrator

        class _Rec(real_cls):
            def __call__(self, model, parameters, momentum, inverse_mass_matrix):
                r = super().__call__(model, parameters, momentum, inverse_mass_matrix)
                record.append((_copy(momentum), _copy(r), env.position(parameters)))
                return r
        integ = _Rec("leapfrog", steps, env.eps)
        mass = tt["Parameter"]("mass", env.M)
        draws = _Draws(env, momenta)
        thr = _InfST() if mk.symbolic else float("inf")
        sink = io.StringIO()
        old_sig = signal.getsignal(signal.SIGINT)
        try:
            with _patched(tt["ham_mod"].Hamiltonian, sample_momentum=draws.sampler()), \
                    _patched(mcmc_mod, torch=_TorchProxy(rand=lambda *a, **k: u)), contextlib.redirect_stdout(sink):
                op = tt["op_mod"].HMCOperator("hmc", env.model, env.params, integ, mass, 1.0, 0.8, [],
                                              divergence_threshold=thr, disable_adaptation=True)
                with torch.no_grad():
                    lj0 = el(env.model())
                chain = mcmc_mod.MCMC("mcmc", env.model, [op], 1, loggers=(), checkpoint=None, every=0)
                chain.run()
                q_end = env.position()
        finally:
            signal.signal(signal.SIGINT, old_sig)
        q0 = _vec(env.q)
        accepted = op._accept == 1
        cl = [("true", "exactly_one_decision", op._accept + op._reject == 1, (op._accept, op._reject)),
              ("true", "number_of_momentum_draws", len(draws.log) == n_trials, len(draws.log)),
              ("true", "epoch_advanced", chain._epoch == 2)]
        for t, (_, _, _, pos) in enumerate(draws.log):
            cl.append(("eq", "trial%d_starts_from_saved_state" % t, pos, q0))
        if all_fail:
            cl += [("true", "ten_failures_are_rejected", not accepted),
                   ("eq", "state_is_saved_state", q_end, q0)]
            return cl
        if rank == "diag":
            Winv = [1 / x for x in _vec(env.M)]
        else:
            Winv = _cofactor_inverse(_mat(env.M))
        p_in, p1, q1 = record[-1]
        # H written from the definition; logp at the trajectory end is the oracle's value at q1
        q1v = _vec(q1)
        lj1 = nf.ufn("logp", *q1v) if mk.symbolic else _logp_py(*q1v)
        H0 = -lj0 + _kinetic_spec(momenta[n_trials - 1], Winv)
        H1 = -lj1 + _kinetic_spec(p1, Winv)
        x = -(H1 - H0)
        uu = el(u, (0,))
        from vt.scenario import sexp
        neg = bool(x < 0)
        bound = sexp(x) if neg else 1.0
        if accepted:
            cl += [("gt0", "accepted_implies_u_below_min1_exp_minus_dH", bound - uu),
                   ("eq", "accepted_state_is_trajectory_end", q_end, q1)]
        else:
            cl += [("ge0", "rejected_implies_u_not_below_min1_exp_minus_dH", uu - bound),
                   ("eq", "rejected_state_is_saved_state", q_end, q0)]
        return cl
    return scn


def scn_kinetic(d, rank, via):
    """Hamiltonian.kinetic_energy(p, M⁻¹) and Hamiltonian._call(momentum=, mass_matrix= | inverse_mass_matrix=)"""
    def scn(mk):
        tt = _tt()
        env = _Env(mk, d, _split(d), rank, "ufn", "real", mass=True)
        p = mk.real("p", (d,), -2.0, 2.0)
        ham = tt["ham_mod"].Hamiltonian(None, env.model)
        if rank == "diag":
            Winv = [1 / x for x in _vec(env.M)]
            Wt = 1.0 / env.M
        else:
            Winv = _cofactor_inverse(_mat(env.M))
            Wt = torch.inverse(env.M)
        K = _kinetic_spec(p, Winv)
        with torch.no_grad():
            lj = env.model()
        if via == "kinetic_energy":
            return [("eq", "kinetic_energy", ham.kinetic_energy(p, Wt), K)]
        if via == "call_inverse":
            return [("eq", "hamiltonian", ham(momentum=p, inverse_mass_matrix=Wt), -el(lj) + K)]
        return [("eq", "hamiltonian", ham(momentum=p, mass_matrix=env.M), -el(lj) + K)]
    return scn


# ======================================================================================================
# C16.energy.order  (partial: local order of the energy error)
# ======================================================================================================

def _rename_atoms(x, rule):
    """rebuild RF x replacing top-level and nested fn atoms by rule(name, args) -> RF | None"""
    cache = {}

    def atom(i):
        if i in cache:
            return cache[i]
        kind, payload = nf.ATOMS.atoms[i]
        if kind == "fn":
            name = payload[0]
            args = [rf(a) if isinstance(a, nf.RF) else a for a in nf._FN_ARGS[i]]
            r = rule(name, args)
            if r is None:
                r = nf.ufn(name, *args)
        elif kind == "var":
            r = nf.atom_rf(i)
        else:
            raise Undecided("energy.order: unexpected atom kind %s" % kind)
        cache[i] = r
        return r

    def poly(p):
        s = nf.ZERO
        for m, c in p.t.items():
            t = nf.const(c)
            for i, e in m:
                t = t * atom(i) ** int(e)
            s = s + t
        return s

    def rf(r):
        return poly(r.n) if r.d.is_one() else poly(r.n) / poly(r.d)
    return rf(x)


def scn_energy_order(d, sizes, steps, rank, variant="real", relations=True):
    """E(ε) = H(Φ_ε(q,p)) − H(q,p) with H = −logp + ½pᵀM⁻¹p; claim E(0) = E'(0) = E''(0) = 0 modulo the smoothness
    relations ∂_k logp = g_k and ∂_k g_i = ∂_i g_k (symmetric Hessian).  Symbolic only."""
    def scn(mk):
        env = _Env(mk, d, sizes, rank, "ufn", variant)
        p = mk.real("p", (d,), -2.0, 2.0)
        if not mk.symbolic:
            # numeric analogue at fixed steps: E(ε)/ε³ stays bounded: |E(ε/2)| <= |E(ε)|/4 (+ tiny)
            def err(e):
                params = env.fresh_params(env.q.clone())
                model = _tt()["Target"](params, False)
                integ = _integrator_class(variant)("lf", steps, e)
                with torch.no_grad():
                    h0 = -model() + _kinetic_num(p, env.W)
                p1 = integ(model, params, p.clone(), env.W)
                with torch.no_grad():
                    h1 = -model() + _kinetic_num(p1, env.W)
                return float(h1 - h0)
            e1, e2 = err(env.eps * 0.2), err(env.eps * 0.1)
            ok = abs(e2) <= abs(e1) / 4 + 1e-13
            return [("true", "taylor_coefficients_0_1_2_vanish", ok, "E(ε)=%r E(ε/2)=%r" % (e1, e2))]
        integ = env.integrator(steps)
        with torch.no_grad():
            lj0 = el(env.model())
        K0 = _kinetic_spec(p, _Wspec(env.W))
        p1 = integ(env.model, env.params, p, env.W)
        with torch.no_grad():
            lj1 = el(env.model())
        K1 = _kinetic_spec(p1, _Wspec(env.W))
        E = (-lj1 + K1) - (-lj0 + K0)

        def rule(name, args):
            if not relations:   # vacuity twin: without the smoothness relations the coefficients must NOT vanish
                return None
            # ∂_k logp = g_k ; ∂_k g_i = ∂_i g_k (canonical: k <= i) ; second derivatives of logp -> derivatives of g
            parts = name.split("_")
            base = parts[-1]
            ders = sorted(int(x[1:]) for x in parts[:-1])
            if base == "logp" and ders:
                base, ders = "g%d" % ders[0], ders[1:]
            if base.startswith("g") and ders:
                idx = sorted(ders + [int(base[1:])])
                base, ders = "g%d" % idx[-1], idx[:-1]
            newname = "_".join(["D%d" % k for k in ders] + [base])
            return nf.ufn(newname, *args)
        zero = {"eps": nf.ZERO}
        out = []
        cur = E
        for order in range(3):
            at0 = _rename_atoms(nf.subst(_rename_atoms(cur, rule), zero), rule)
            out.append(("eq", "taylor_coefficient_%d_vanishes" % order, at0, 0.0))
            if order < 2:
                cur = nf.diff(cur, "eps")
        ok = all(nf.equal(c[2], 0) for c in out)
        info = "; ".join("%s: %s" % (c[1], nf.show(nf.as_rf(c[2]), 4)) for c in out if not nf.equal(c[2], 0))
        return [("true", "taylor_coefficients_0_1_2_vanish", ok, info)]
    return scn


def _kinetic_num(p, W):
    return 0.5 * (p * (W * p if W.dim() == 1 else W @ p)).sum()


# ======================================================================================================
# vacuity: must-fail twins
# ======================================================================================================

def _must_fail(name, factory, args, what, seed, clause="vacuity", **kw):
    def body():
        scn = globals()[factory](*args)
        try:
            prove_scenario(scn, seed=seed, replay=None, **kw)
        except Refuted as e:
            return {"backend": "nf", "statement": "must-fail twin (%s) refuted: %s" % (what, e.detail[:300]), "twin_confirmed_numerically": e.confirmed}
        raise Undecided("vacuity guard failed: the must-fail twin (%s) was NOT refuted" % what)
    return Ob(name, "V", body, clause=clause, funcs=FUNCS, timeout=300)


def _cut_ob(name, factory, args, clause, d, seed, fallback):
    """scenario obligation for a loop-cut contract; when the cut cannot be applied to the current source the downgrade to
    the V obligations (which enumerate the property's whole bound) is recorded instead of a verdict (DESIGN 2.5)"""
    def body():
        scn = globals()[factory](*args)
        try:
            return prove_scenario(scn, seed=seed, replay={"contract": "C16", "factory": factory, "args": list(args)}, fns=_fns(d))
        except _CutUnavailable as e:
            return {"backend": "downgraded", "trivial": True,
                    "statement": "DOWNGRADED to V (%s): %s" % (fallback, str(e)[:300])}
    return Ob(name, "U", body, clause=clause, funcs=FUNCS)


# ======================================================================================================
# obligations
# ======================================================================================================

def obligations(tier, seed):
    obs = []
    thorough = tier == "thorough"

    def add(name, tag, factory, args, clause, d, **kw):
        if factory in ("scn_hastings", "scn_kinetic", "scn_mcmc"):
            kw.setdefault("timeout", 240)
        obs.append(scenario_ob("C16", name, tag, factory, args, clause=clause, funcs=FUNCS, seed=seed, fns=_fns(d), **kw))

    ranks = ("diag", "dense")
    # ---- reverse (V): the property's own bound
    for d in range(1, D_MAX + 1):
        for rank in ranks:
            steps_list = range(1, STEPS_MAX + 1) if thorough else [1, 2, 3, 4, 5, STEPS_MAX]
            for steps in steps_list:
                alts = [0]
                if d >= 2 and (thorough and steps in (1, 7, STEPS_MAX) or (not thorough and steps == 2)):
                    alts = [0, 1, 2]
                for alt in alts:
                    sizes = _split(d, alt)
                    add("C16.reverse[d=%d,steps=%d,%s,split=%s]" % (d, steps, rank, "+".join(map(str, sizes))), "V",
                        "scn_reverse", (d, sizes, steps, rank), "reversibility", d)
    # the step size in force is the public attribute of the live integrator (assigned after construction by adaptors,
    # set_adaptable_parameter, find_reasonable_step_size), not the constructor argument
    for d in (1, 2, 3):
        for rank in ranks:
            for steps in (1, 2, 4):
                sizes = _split(d)
                add("C16.reverse.assigned_step_size[d=%d,steps=%d,%s]" % (d, steps, rank), "V",
                    "scn_reverse", (d, sizes, steps, rank, "real", True), "reversibility for the step size assigned to a live integrator", d)
    # ---- reverse / volume, every step count (U): loop cut
    for d in range(1, D_MAX + 1):
        for rank in ranks:
            sizes = _split(d)
            obs.append(_cut_ob("C16.reverse.cut[d=%d,%s]" % (d, rank), "scn_cut", (d, sizes, rank), "reversibility (all step counts)", d, seed,
                               "C16.reverse[d=%d,steps=1..%d,%s]" % (d, STEPS_MAX, rank)))
            add("C16.reverse.lemmas[d=%d,%s]" % (d, rank), "U", "scn_lemmas", (d, rank), "reversibility (all step counts)", d)
            obs.append(_cut_ob("C16.volume.cut[d=%d,%s]" % (d, rank), "scn_volume_cut", (d, sizes, rank), "volume preservation (all step counts)", d, seed,
                               "C16.volume.trace[d=%d,steps=1..%d,%s]" % (d, STEPS_MAX, rank)))
    # ---- volume trace (V)
    for d in range(1, D_MAX + 1):
        for rank in ranks:
            if thorough:
                steps_list = range(1, STEPS_MAX + 1)
            else:
                steps_list = [1, 2, 3, STEPS_MAX] if d in (1, 2, 3, D_MAX) else [2]
            for steps in steps_list:
                add("C16.volume.trace[d=%d,steps=%d,%s]" % (d, steps, rank), "V", "scn_volume_trace",
                    (d, _split(d), steps, rank), "volume preservation", d)
    for d in (1, 2):
        for steps in (1, 2):
            for rank in ranks:
                add("C16.volume.det[d=%d,steps=%d,%s]" % (d, steps, rank), "V", "scn_volume_det", (d, _split(d), steps, rank),
                    "volume preservation (explicit determinant)", d)
    # ---- representation invariant of the operator (what the Hastings obligations read at step time)
    for d in (1, 2, 3):
        for rank in ranks:
            for how in ("init", "assign", "inplace", "load_state"):
                add("C16.hastings.mass_invariant[d=%d,%s,%s]" % (d, rank, how), "V", "scn_mass_invariant", (d, rank, how),
                    "the kinetic energy uses the inverse of the mass matrix the momentum is drawn with", d)
    for rank in ranks:
        obs.append(ob_mass_invariant_adaptor(rank))
        obs.append(ob_momentum_draw(rank))
    # ---- hastings
    for d in (1, 2, 3):
        for rank in ranks:
            for steps in ((1, 2, 3) if (thorough or d <= 2) and not (rank == "dense" and d == 3 and not thorough) else (1,)):
                for warm in (False, True):
                    add("C16.hastings[d=%d,steps=%d,%s,%s]" % (d, steps, rank, "warm" if warm else "cold"), "V", "scn_hastings",
                        (d, _split(d), rank, steps, [None], "real", "inverse", warm), "Hastings term = kinetic energy change", d)
    # default divergence threshold (1000): the print-only diagnostic forks on the symbolic energy error; both paths proved
    for rank in ranks:
        add("C16.hastings[d=2,steps=1,%s,threshold=default]" % rank, "V", "scn_hastings",
            (2, (1, 1), rank, 1, [None], "real", "inverse", False, "real", "default"), "Hastings term = kinetic energy change", 2)
    for d in range(1, D_MAX + 1):
        for rank in ranks:
            inv = "stub" if (rank == "dense" and d > 3) else "real"
            add("C16.hastings.modular[d=%d,%s%s]" % (d, rank, ",inverse=contract" if inv == "stub" else ""), "U", "scn_hastings",
                (d, _split(d), rank, 0, [None], "contract", "inverse", False, inv), "Hastings term = kinetic energy change", d)
    # failure points: every model call (0..steps+2) and every backward (0..steps) of a trial
    for rank in ranks:
        for steps in ((1, 2) if thorough else (2,)):
            pts = [["U", k] for k in range(steps + 3)] + [["G", j] for j in range(steps + 1)]
            for f in pts:
                add("C16.hastings.fail[%s%d,then-ok,steps=%d,%s]" % (f[0], f[1], steps, rank), "V", "scn_hastings",
                    (2, (1, 1), rank, steps, [f, None]), "failure path restores the saved tensors", 2)
            add("C16.hastings.fail[U1,G%d,U%d,then-ok,steps=%d,%s]" % (steps, steps + 2, steps, rank), "V", "scn_hastings",
                (2, (1, 1), rank, steps, [["U", 1], ["G", steps], ["U", steps + 2], None]), "failure path restores the saved tensors", 2)
            for f in (["U", steps + 2], ["G", 1], ["U", 0]):
                add("C16.hastings.fail[10x%s%d,steps=%d,%s]" % (f[0], f[1], steps, rank), "V", "scn_hastings",
                    (2, (1, 1), rank, steps, [f] * 10), "ten failures: infinite Hastings term, rejected, state restored", 2)
    # one iteration of the real MCMC.run (accept rule on the full Hamiltonian difference; ten failures rejected)
    for d in ((1, 2, 3) if thorough else (1, 2)):
        for rank in ranks:
            if rank == "dense" and d > 2:
                continue   # exp(·) of the unreduced 3×3 symbolic inverse is out of z3's budget
            for steps in ((1, 2) if thorough else (1,)):
                add("C16.hastings.mcmc[d=%d,steps=%d,%s]" % (d, steps, rank), "V", "scn_mcmc", (d, _split(d), rank, steps, [None]),
                    "acceptance decided on the full Hamiltonian difference (real MCMC.run)", d, expect_paths_min=3)
    for rank in ranks:
        add("C16.hastings.mcmc[fail-then-ok,%s]" % rank, "V", "scn_mcmc", (2, (1, 1), rank, 2, [["G", 1], None]),
            "acceptance decided on the full Hamiltonian difference (real MCMC.run)", 2, expect_paths_min=3)
        add("C16.hastings.mcmc[10xfail,%s]" % rank, "V", "scn_mcmc", (2, (1, 1), rank, 1, [["U", 1]] * 10),
            "ten failures: infinite Hastings term, rejected, state restored", 2)
    for d in (1, 2, 3, 4):
        for rank in ranks:
            if rank == "dense" and d > 3:
                continue   # symbolic 4×4 inverse is out of budget for nf (no polynomial gcd); d≥4 dense is covered with the inverse contract
            for via in ("kinetic_energy", "call_inverse", "call_mass"):
                add("C16.hastings.kinetic[d=%d,%s,%s]" % (d, rank, via), "V", "scn_kinetic", (d, rank, via),
                    "kinetic energy = ½pᵀM⁻¹p", d)
    # ---- energy error, local order only (partial)
    for d, steps, rank in [(1, 1, "diag"), (2, 1, "dense"), (2, 2, "diag")] + ([(2, 2, "dense"), (1, 3, "diag"), (3, 1, "dense")] if thorough else []):
        add("C16.energy.order[d=%d,steps=%d,%s]" % (d, steps, rank), "V", "scn_energy_order", (d, _split(d), steps, rank),
            "energy error: local order (partial; asymptotic clause not decided)", d)
    # ---- vacuity
    fl2 = _fns(2)
    obs.append(_must_fail("C16.vacuity.reverse[no_final_half]", "scn_reverse", (2, (1, 1), 2, "dense", "no_final_half"),
                          "final half momentum step removed", seed, fns=fl2))
    obs.append(_must_fail("C16.vacuity.reverse[first_kick_full]", "scn_reverse", (2, (1, 1), 3, "diag", "first_kick_full"),
                          "ε instead of ε/2 in the first momentum step", seed, fns=fl2))
    obs.append(_must_fail("C16.vacuity.cut[no_final_half]", "scn_cut", (2, (1, 1), "diag", "no_final_half"),
                          "final half momentum step removed (loop-cut obligation)", seed, fns=fl2))
    obs.append(_must_fail("C16.vacuity.volume.trace[drift_scales_q]", "scn_volume_trace", (2, (1, 1), 2, "diag", "drift_scales_q"),
                          "position update scales q (not a shear)", seed, fns=fl2))
    obs.append(_must_fail("C16.vacuity.volume.trace[kick_uses_momentum]", "scn_volume_trace", (2, (1, 1), 2, "dense", "kick_uses_momentum"),
                          "momentum update depends on the momentum (not a shear)", seed, fns=fl2))
    obs.append(_must_fail("C16.vacuity.volume.cut[kick_uses_momentum]", "scn_volume_cut", (2, (1, 1), "diag", "kick_uses_momentum"),
                          "momentum update depends on the momentum (loop-cut obligation)", seed, fns=fl2))
    obs.append(_must_fail("C16.vacuity.volume.det[drift_scales_q]", "scn_volume_det", (1, (1,), 1, "diag", "drift_scales_q"),
                          "position update scales q: determinant 1.01^d", seed, fns=_fns(1)))
    obs.append(_must_fail("C16.vacuity.energy.order[first_kick_full]", "scn_energy_order", (2, (1, 1), 2, "dense", "first_kick_full"),
                          "ε instead of ε/2 in the first momentum step: first-order energy error", seed, fns=fl2))
    obs.append(_must_fail("C16.vacuity.energy.order[no_relations]", "scn_energy_order", (2, (1, 1), 1, "diag", "real", False),
                          "without ∂logp = g and the symmetric Hessian the coefficients must not vanish", seed, fns=fl2))
    obs.append(_must_fail("C16.vacuity.hastings[wrong_spec]", "scn_hastings", (2, (1, 1), "dense", 1, [None], "real", "wrong_M"),
                          "postcondition with K(p)=½pᵀMp instead of ½pᵀM⁻¹p", seed, fns=fl2))
    return obs
