import Mathlib.Analysis.Normed.Algebra.MatrixExponential
import Mathlib.Analysis.SpecialFunctions.Exponential

/-!
Spec-level lemma used by C04 (DESIGN 4, C04.pt.sym (c)):
if `Q = A * diagonal e * A⁻¹` with `A` invertible then
`exp (t • Q) = A * diagonal (fun k => Real.exp (t * e k)) * A⁻¹`.
The code-side obligations prove that `p_t` returns the right-hand side with
`A = sqrt(pi)⁻¹ V`, `A⁻¹ = V⁻¹ sqrt(pi)`.
-/

open Matrix NormedSpace

theorem exp_of_eigendecomposition {n : Type*} [Fintype n] [DecidableEq n]
    (A : Matrix n n ℝ) (e : n → ℝ) (t : ℝ) (hA : IsUnit A) :
    exp (t • (A * diagonal e * A⁻¹))
      = A * diagonal (fun k => Real.exp (t * e k)) * A⁻¹ := by
  have h1 : t • (A * diagonal e * A⁻¹) = A * diagonal (fun k => t * e k) * A⁻¹ := by
    have : diagonal (fun k => t * e k) = t • diagonal e := by
      ext i j
      by_cases h : i = j
      · subst h; simp
      · simp [h]
    rw [this, Matrix.mul_smul, Matrix.smul_mul]
  rw [h1, Matrix.exp_conj _ _ hA, Matrix.exp_diagonal]
  congr 2
  rw [Pi.exp_def]
  ext k
  simp [Real.exp_eq_exp_ℝ]
