#!/bin/bash
# setup_cmd: builds the overlay venv (python 3.12 with torch+torchtree deps from /venv, z3/cvc5/jsonschema from the wheelhouse)
set -e
cd "$(dirname "$0")"
if [ ! -x .venv/bin/python ] || ! .venv/bin/python -c "import z3, torch, jsonschema" 2>/dev/null; then
  rm -rf .venv
  /venv/bin/python -m venv .venv
  PIP_NO_INDEX=1 .venv/bin/pip install -q --no-index --find-links /opt/veriftools/wheels z3-solver cvc5 jsonschema
  echo "import site; site.addsitedir('/venv/lib/python3.12/site-packages')" > .venv/lib/python3.12/site-packages/_repo_overlay.pth
fi
.venv/bin/python -c "import z3, torch, jsonschema, sympy, mpmath; print('overlay venv ok', z3.get_version_string(), torch.__version__)"
