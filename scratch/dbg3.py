import sys
sys.path.insert(0,'/repo'); sys.path.insert(0,'/verif')
import torch
torch.set_default_dtype(torch.float64)
torch.distributions.Distribution.set_default_validate_args(False)
from contracts import C08
from vt.scenario import MkSym
from vt import cond, nf
scn=C08.scn_coalescent("linear",2,"iso",(),(),[0.7])
ex=cond.Explorer()
res=ex.run(lambda: scn(MkSym()))
for (cl,path) in res:
    print("PATH",path[-3:])
    c=cl[-1]
    a=c[2].a.reshape(-1)[0]; b=c[3][0]
    print(" code:",nf.show(a,20)); print(" spec:",nf.show(b,20)); print(" equal:",nf.equal(a,b))
    d=a-b
    print(" diff:",nf.show(d,20))
