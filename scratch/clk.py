import sys; sys.path.insert(0,'/repo'); sys.path.insert(0,'/verif')
import torch
torch.set_default_dtype(torch.float64)
from specs import treemodels, trees
from torchtree.core.parameter import Parameter
from torchtree.evolution.alignment import Alignment, Sequence
from torchtree.evolution.branch_model import StrictClockModel, SimpleClockModel
from torchtree.evolution.datatype import NucleotideDataType
from torchtree.evolution.site_model import ConstantSiteModel
from torchtree.evolution.site_pattern import SitePattern
from torchtree.evolution.substitution_model.nucleotide import JC69
from torchtree.evolution.tree_likelihood import TreeLikelihoodModel
names=["A","B","C"]
def build(rate):
    tm,_=treemodels.build_timetree(((0,1),2),names,[0.,0.,0.],torch.tensor([1.0,2.0]))
    aln=Alignment("a",[Sequence(n,s) for n,s in zip(names,["AC","CG","GT"])],tm._taxa,NucleotideDataType(None))
    cm=StrictClockModel("c",Parameter("r",rate),tm)
    return TreeLikelihoodModel("l",SitePattern("sp",aln),tm,JC69("jc"),ConstantSiteModel("sm"),cm)
r=torch.tensor([[0.1],[0.5],[1.0]])
try:
    print("batched", build(r)())
except Exception as e: print("raises",type(e).__name__,e)
for i in range(3): print("single",float(build(r[i])()))
