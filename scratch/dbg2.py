import sys
sys.path.insert(0,'/repo'); sys.path.insert(0,'/verif')
import torch, itertools
torch.set_default_dtype(torch.float64)
from contracts import C01
from vt.scenario import prove_scenario, MkSym
from vt import cond, nf
T=3;S=2
pats=list(itertools.product(range(S+1),repeat=T))
cols=[[p[i] for p in pats] for i in range(T)]
scn=C01.scn_prune("states","((0,1),2)",2,2,(),cols)
ex=cond.Explorer()
res=ex.run(lambda: scn(MkSym()))
cl=res[0][0][0]
print(cl[2].a.shape, len(cl[3]))
print(nf.show(cl[2].a[0],3)[:300]); print(nf.show(cl[3][0],3)[:300])
print(prove_scenario(scn))
