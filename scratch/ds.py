import sys; sys.path.insert(0,'/repo')
import torch
torch.set_default_dtype(torch.float64)
from torchtree.core.parameter import Parameter
from torchtree.distributions.distributions import Distribution
from torchtree.distributions.joint_distribution import JointDistributionModel
S=3
x=Parameter("x",torch.tensor([[0.1],[0.5],[0.9]]))
mu=Parameter("mu",torch.tensor([[0.0],[1.0],[2.0]]))
sd=Parameter("sd",torch.ones(1))
d=Distribution("d",torch.distributions.Normal,x,{"loc":mu,"scale":sd})
pm=Distribution("pm",torch.distributions.Normal,mu,{"loc":Parameter(None,torch.zeros(1)),"scale":Parameter(None,torch.ones(1))})
print("sample shapes", d.sample_shape, pm.sample_shape)
j=JointDistributionModel("j",[d,pm])
try:
    print("joint", j())
except Exception as e: print("raises", type(e).__name__, e)
for s in range(S):
    xs=Parameter("x",x.tensor[s]); ms=Parameter("mu",mu.tensor[s])
    ds=Distribution("d",torch.distributions.Normal,xs,{"loc":ms,"scale":sd})
    ps=Distribution("pm",torch.distributions.Normal,ms,{"loc":Parameter(None,torch.zeros(1)),"scale":Parameter(None,torch.ones(1))})
    print("slice",s,float(JointDistributionModel("j",[ds,ps])()))
j2=JointDistributionModel("j2",[d])
print("joint of d alone:", j2(), "sample_shape", j2.sample_shape)
print("per-sample:", [float(torch.distributions.Normal(mu.tensor[s],1.0).log_prob(x.tensor[s])) for s in range(S)])
