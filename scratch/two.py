import sys; sys.path.insert(0,'/repo'); sys.path.insert(0,'/verif')
import contracts.C17 as c
import vt.cond
try:
    print(c._two_stage_case())
except vt.cond.Undecided as e:
    print(str(e)[-1500:])
