import sys
sys.path.insert(0,'/repo'); sys.path.insert(0,'/verif')
import torch
torch.set_default_dtype(torch.float64)
from vt import cond
orig=cond.Explorer.decide
import traceback
cnt=[0]
def dec(self,c):
    cnt[0]+=1
    if cnt[0]<3:
        print("DECIDE",c); traceback.print_stack(limit=8)
    return orig(self,c)
cond.Explorer.decide=dec
from contracts import C01
from vt.scenario import prove_scenario
scn=C01.scn_prune("partials","((0,1),2)",2,2,(),2)
try:
    print(prove_scenario(scn,max_paths=20))
except Exception as e: print("EXC",e)
