"""Oracle for C08 / C20, written from the property statement:

   log p = - Σ_{inter-event intervals} C(k,2) ∫ 1/N(t) dt  -  Σ_{coalescent times} log N(t)

where k is the number of lineages during the interval and N(t) is the population-size function the
model documents.  Works on vt.nf.RF (symbolic; comparisons fork consistently with the path of the
code under test) and on floats.
"""
import math

from vt import nf
from vt.cond import Infeasible
from vt.scenario import sexp, slog


def _is_zero(g):
    if isinstance(g, nf.RF):
        return g.n.is_zero()
    return g == 0


def _lt(a, b):
    return bool(a < b)


def sort_events(events):
    """events: list of (time, kind) ; insertion sort with forking comparisons; stable"""
    out = []
    for ev in events:
        pos = len(out)
        while pos > 0 and _lt(ev[0], out[pos - 1][0]):
            pos -= 1
        out.insert(pos, ev)
    return out


class Demography:
    """N(t): log_n(t) and integral(a, b) of 1/N over [a,b] lying inside one piece.
    breakpoints(): times at which the functional form changes (added as 'grid' events)."""

    def breakpoints(self):
        return []

    def start(self):
        pass

    def on_event(self, kind, time):
        pass


class Constant(Demography):
    def __init__(self, theta):
        self.theta = theta

    def integral(self, a, b):
        return (b - a) / self.theta

    def log_n(self, t):
        return slog(self.theta)


class Exponential(Demography):
    """N(t) = theta * exp(-g t)"""

    def __init__(self, theta, g):
        self.theta, self.g = theta, g

    def integral(self, a, b):
        if _is_zero(self.g):
            return (b - a) / self.theta          # N(t) = theta exp(-0 t) = theta
        return (sexp(self.g * b) - sexp(self.g * a)) / (self.theta * self.g)

    def log_n(self, t):
        return slog(self.theta) - self.g * t


class Skyride(Demography):
    """piecewise constant, one value per inter-coalescent interval (theta_j applies between the
    j-th and (j+1)-th coalescent event, j = 0 before the first)"""

    def __init__(self, thetas):
        self.thetas = thetas
        self.j = 0

    def start(self):
        self.j = 0

    def integral(self, a, b):
        return (b - a) / self.thetas[self.j]

    def log_n(self, t):
        return slog(self.thetas[self.j])

    def on_event(self, kind, time):
        if kind == "coal":
            self.j += 1


class GridConstant(Demography):
    """piecewise constant on a fixed grid g_1<...<g_G: theta_0 on [0,g_1), theta_i on [g_i, g_{i+1}), theta_G beyond"""

    def __init__(self, thetas, grid):
        self.thetas, self.grid = thetas, list(grid)
        self.j = 0

    def breakpoints(self):
        return self.grid

    def start(self):
        self.j = 0

    def integral(self, a, b):
        return (b - a) / self.thetas[self.j]

    def log_n(self, t):
        return slog(self.thetas[self.j])

    def on_event(self, kind, time):
        if kind == "grid":
            self.j += 1


class GridLinear(Demography):
    """N linear between grid points g_0=0<g_1<...<g_G with N(g_i)=theta_i; constant theta_G beyond g_G"""

    def __init__(self, thetas, grid):
        self.thetas, self.grid = thetas, [0.0] + list(grid)
        self.j = 0

    def breakpoints(self):
        return self.grid[1:]

    def start(self):
        self.j = 0

    def n(self, t):
        G = len(self.grid) - 1
        if self.j >= G:
            return self.thetas[G]
        g0, g1 = self.grid[self.j], self.grid[self.j + 1]
        return self.thetas[self.j] + (self.thetas[self.j + 1] - self.thetas[self.j]) * (t - g0) / (g1 - g0)

    def integral(self, a, b):
        G = len(self.grid) - 1
        if self.j >= G:
            return (b - a) / self.thetas[G]
        g0, g1 = self.grid[self.j], self.grid[self.j + 1]
        d = self.thetas[self.j + 1] - self.thetas[self.j]
        if (isinstance(d, nf.RF) and d.is_zero()) or (not isinstance(d, nf.RF) and d == 0):
            return (b - a) / self.thetas[self.j]
        slope = d / (g1 - g0)
        return (slog(self.n(b)) - slog(self.n(a))) / slope

    def log_n(self, t):
        return slog(self.n(t))

    def on_event(self, kind, time):
        if kind == "grid":
            self.j += 1


class GridExponential(Demography):
    """N(0)=theta0; on piece i (from g_i, g_0=0) N(t) = N(g_i) exp(-growth_i (t - g_i))"""

    def __init__(self, theta0, growths, grid):
        self.theta0, self.growths, self.grid = theta0, growths, [0.0] + list(grid)
        self.j = 0

    def breakpoints(self):
        return self.grid[1:]

    def start(self):
        self.j = 0
        self.log_n_start = slog(self.theta0)

    def log_n(self, t):
        return self.log_n_start - self.growths[self.j] * (t - self.grid[self.j])

    def integral(self, a, b):
        g = self.growths[self.j]
        g0 = self.grid[self.j]
        n0 = sexp(self.log_n_start)
        if _is_zero(g):
            return (b - a) / n0                  # the piece is flat
        return (sexp(g * (b - g0)) - sexp(g * (a - g0))) / (n0 * g)

    def on_event(self, kind, time):
        if kind == "grid":
            self.log_n_start = self.log_n(time)
            self.j += 1


def log_density(tip_times, coal_times, demo, return_parts=False):
    """tip_times: floats; coal_times: RF or floats (any order). Raises Infeasible when the times
    do not describe a genealogy (a coalescence with fewer than two lineages)."""
    symbolic = any(isinstance(t, nf.RF) for t in coal_times)
    if symbolic:
        # exact constants, so that differences of sampling times / grid points carry no float rounding
        tip_times = [nf.const(t) for t in tip_times]
        if hasattr(demo, "grid"):
            demo.grid = [nf.const(g) for g in demo.grid]
    events = [(t, "tip") for t in tip_times] + [(t, "grid") for t in demo.breakpoints()] + [(t, "coal") for t in coal_times]
    # stable order for ties: tips first, then grid, then coalescent (measure-zero ties between
    # symbolic and concrete times are separate paths and give equal values on both orders)
    ev = sort_events(events)
    demo.start()
    k = 0
    total = 0
    prev = None
    parts = []
    for (t, kind) in ev:
        if prev is not None and k >= 2:
            same = (prev is t) or (isinstance(prev, float) and isinstance(t, float) and prev == t) or \
                (isinstance(prev, nf.RF) and isinstance(t, nf.RF) and prev.same(t))
            if not same:
                c = k * (k - 1) // 2
                total = total - c * demo.integral(prev, t)
        elif prev is not None and k < 2 and kind == "coal":
            raise Infeasible("coalescent event with fewer than two lineages")
        if kind == "tip":
            k += 1
        elif kind == "coal":
            if k < 2:
                raise Infeasible("coalescent event with fewer than two lineages")
            total = total - demo.log_n(t)
            k -= 1
        demo.on_event(kind, t)
        prev = t
    if k != 1:
        raise Infeasible("genealogy does not end with one lineage")
    return total
