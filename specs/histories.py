"""Generic "every history" driver for evaluation-protocol obligations (used by C01/C08/C09/...).

A world is built by `make(indices)` where indices[j] selects the value of parameter j from its value list:
    make(indices) -> (evaluate, params, reads)
        evaluate : () -> tensor           the value the property talks about (a REAL torchtree model call)
        params   : [Parameter-like]       handles with `.tensor` setter and `.fire_parameter_changed()`
        reads    : {name: () -> anything} other public reads that may clear dirty flags (node heights, branch lengths, ...)
        values   : [[tensor, ...], ...]   per parameter, the list of values (index 0 = initial)
`explore` drives a live world through EVERY history of length <= depth over
    set j      assign the next value of parameter j through the public setter
    inplace j  write the next value in place (torch.no_grad) and fire the change notification (what optimisers / operators do)
    read r     call reads[r]
    eval       evaluate; compared with the evaluation of a FRESH world built at the current indices
and returns (first failure | None, number of histories).  Histories must end in `eval`.
"""
import itertools

import torch


def explore(make, depth, rtol=1e-10, atol=1e-12, inplace=True):
    ev0, params0, reads0, values0 = make(None)
    n_par = len(params0)
    ops = [("set", j) for j in range(n_par)]
    if inplace:
        ops += [("inplace", j) for j in range(n_par)]
    ops += [("read", r) for r in reads0] + [("eval", None)]
    fresh = {}

    def fresh_value(idx):
        if idx not in fresh:
            e, _, _, _ = make(idx)
            v = e()
            fresh[idx] = v.detach().clone() if isinstance(v, torch.Tensor) else v
        return fresh[idx]
    n = 0
    for d in range(1, depth + 1):
        for hist in itertools.product(ops, repeat=d):
            if hist[-1][0] != "eval":
                continue
            # histories without any update before the last eval are covered by shorter ones unless they start with eval
            n += 1
            evaluate, params, reads, values = make(None)
            idx = [0] * n_par
            ok_hist = True
            for k, (op, a) in enumerate(hist):
                if op in ("set", "inplace"):
                    if idx[a] + 1 >= len(values[a]):
                        ok_hist = False
                        break
                    idx[a] += 1
                    new = values[a][idx[a]].clone()
                    if op == "set":
                        params[a].tensor = new
                    else:
                        with torch.no_grad():
                            params[a].tensor.copy_(new)
                        params[a].fire_parameter_changed()
                elif op == "read":
                    reads[a]()
                else:
                    got = evaluate()
                    want = fresh_value(tuple(idx))
                    same = isinstance(got, torch.Tensor) and got.shape == want.shape and torch.allclose(got.detach(), want, rtol=rtol, atol=atol, equal_nan=True)
                    if not same:
                        return ([("%s %s" % (o, b)) if b is not None else o for o, b in hist[:k + 1]],
                                got.detach().tolist() if isinstance(got, torch.Tensor) else repr(got), want.tolist()), n
            if not ok_hist:
                continue
    return None, n


def dtype_consistency(make_for_dtype, index_sets=(None,), rtol=1e-4, atol=1e-4):
    """make_for_dtype(dtype) -> make (as for explore).  Evaluates the world with every input in float64 and in float32 at each index set:
    returns (first discrepancy | None, points compared, notes).  A float32 evaluation that raises is a loud failure: accepted, noted."""
    n, notes = 0, []
    mk64, mk32 = make_for_dtype(torch.float64), make_for_dtype(torch.float32)
    npar = len(mk64(None)[1])
    for idx in index_sets:
        i = None if idx is None else tuple(idx[:npar])
        v64 = mk64(i)[0]()
        try:
            v32 = mk32(i)[0]()
        except Exception as e:
            notes.append("float32 inputs raise %s" % type(e).__name__)
            continue
        n += 1
        if not isinstance(v32, torch.Tensor) or not v32.dtype.is_floating_point or v32.shape != v64.shape or \
                not torch.allclose(v32.to(torch.float64), v64.to(torch.float64), rtol=rtol, atol=atol, equal_nan=False):
            return (i, v32.tolist() if isinstance(v32, torch.Tensor) else repr(v32), str(getattr(v32, "dtype", None)), v64.tolist()), n, notes
    return None, n, notes
