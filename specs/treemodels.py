"""helpers shared by C06/C07/C08...: build REAL torchtree tree-model objects from a nested-tuple
topology, and the oracle's independent view of the same tree (documented index convention)."""
from specs import trees


def make_taxa(names, dates):
    from torchtree.evolution.taxa import Taxa, Taxon
    return Taxa("taxa", [Taxon(n, {"date": d}) for n, d in zip(names, dates)])


def newick_of(tree_nested, names):
    return trees.to_newick(tree_nested, names)


def oracle_view(newick, taxa_names):
    nodes, root = trees.index_tree(trees.parse_newick(newick), taxa_names)
    return nodes, root


def ages_of(dates):
    """documented convention: dates are ages when the smallest is 0, calendar dates otherwise"""
    if min(dates) == 0.0:
        return list(dates)
    m = max(dates)
    return [m - d for d in dates]


def build_reparam(tree_nested, names, dates, param, kind="ratios"):
    """real ReparameterizedTimeTreeModel; param: tensor-like of shape [..., T-1]"""
    from torchtree.core.parameter import Parameter
    from torchtree.evolution.tree_model import ReparameterizedTimeTreeModel, initialize_dates_from_taxa, parse_tree
    taxa = make_taxa(names, dates)
    newick = newick_of(tree_nested, names)
    tree = parse_tree(taxa, {"newick": newick})
    initialize_dates_from_taxa(tree, taxa)
    p = Parameter("p", param)
    if kind == "ratios":
        tm = ReparameterizedTimeTreeModel("tree", tree, taxa, ratios_root_height=p)
    else:
        tm = ReparameterizedTimeTreeModel("tree", tree, taxa, shifts=p)
    return tm, newick


def build_timetree(tree_nested, names, dates, heights):
    from torchtree.core.parameter import Parameter
    from torchtree.evolution.tree_model import TimeTreeModel, initialize_dates_from_taxa, parse_tree
    taxa = make_taxa(names, dates)
    newick = newick_of(tree_nested, names)
    tree = parse_tree(taxa, {"newick": newick})
    initialize_dates_from_taxa(tree, taxa)
    return TimeTreeModel("tree", tree, taxa, Parameter("h", heights)), newick


def bounds_of(nodes, root, ages, T):
    """oldest tip below each node (oracle)"""
    b = {}

    def rec(i):
        if not nodes[i]["children"]:
            b[i] = ages[i]
        else:
            b[i] = max(rec(c) for c in nodes[i]["children"])
        return b[i]
    rec(root)
    return b


DATE_PATTERNS = {
    "iso": lambda T: [0.0] * T,
    "hetero": lambda T: [float((i * 3) % (T + 1)) for i in range(T)],
    "ties": lambda T: [float(i // 2) for i in range(T)],
    "calendar": lambda T: [2000.0 + float((i * 5) % (T + 2)) for i in range(T)],
    # calendar dates relative to the most recent sample: all <= 0, the largest exactly 0 (the smallest is not 0: these are not ages)
    "nonpositive": lambda T: [-1.25 * float((i * 3) % (T + 1)) for i in range(T)],
}


def reparam_histories(kind, depth=4, reads=("heights", "bl", "call"), check=("heights", "bl", "call")):
    """Drives a real ReparameterizedTimeTreeModel through EVERY history of length <= depth over the public operations
    {set: assign a new parameter tensor, inplace: in-place update + fire_parameter_changed, heights, bl, call} and compares every
    read with a FRESH model built at the current parameter value.  Returns (first failing (history, read, got, want) or None,
    number of histories, abstract dirty-flag states seen per depth) -- the abstract state is the tuple of the three *_need(s)_update
    flags; saturation of that set before `depth` makes the enumeration exhaustive modulo the flag abstraction."""
    import itertools
    import torch
    tree = ((0, 1), (2, 3))
    T = 4
    names = ["t%d" % i for i in range(T)]
    dates = [0.0, 1.0, 0.0, 2.0]
    if kind == "ratios":
        values = [torch.tensor(v, dtype=torch.float64) for v in ([0.5, 0.25, 3.0], [0.3, 0.6, 4.0], [0.8, 0.1, 2.5], [0.45, 0.55, 5.0], [0.2, 0.9, 3.5])]
    else:
        values = [torch.tensor(v, dtype=torch.float64) for v in ([0.5, 0.7, 0.3], [0.2, 0.4, 0.9], [1.1, 0.1, 0.6], [0.35, 0.8, 0.25], [0.6, 0.6, 0.6])]
    ops = ("set", "inplace") + tuple(reads)

    def read(tm, op):
        if op == "heights":
            return tm.node_heights
        if op == "bl":
            return tm.branch_lengths()
        return tm()
    fresh_cache = {}

    def fresh(i, op):
        if (i, op) not in fresh_cache:
            f, _ = build_reparam(tree, names, dates, values[i].clone(), kind)
            fresh_cache[(i, op)] = read(f, op).detach().clone()
        return fresh_cache[(i, op)]
    n = 0
    seen = [set() for _ in range(depth + 1)]
    for d in range(1, depth + 1):
        for hist in itertools.product(ops, repeat=d):
            if hist[-1] not in check:
                continue
            n += 1
            tm, _ = build_reparam(tree, names, dates, values[0].clone(), kind)
            p = tree_parameter(tm)
            cur = 0
            for k, op in enumerate(hist):
                if op == "set":
                    cur += 1
                    p.tensor = values[cur].clone()
                elif op == "inplace":
                    cur += 1
                    with torch.no_grad():
                        p.tensor.copy_(values[cur])
                    p.fire_parameter_changed()
                else:
                    got = read(tm, op)
                    want = fresh(cur, op)
                    if op in check and (got.shape != want.shape or not torch.allclose(got.detach(), want, rtol=1e-10, atol=1e-12)):
                        return (hist[:k + 1], op, got.detach().tolist(), want.tolist()), n, seen
                seen[k + 1].add((bool(getattr(tm, "heights_need_update", None)), bool(getattr(tm, "branch_lengths_need_update", None)), bool(getattr(tm, "lp_needs_update", None))))
    return None, n, seen


def tree_parameter(tm):
    """the (unique) parameter a tree model is built on, through the public `parameters()` API (not through a private attribute name,
    so that renaming `_internal_heights` / `_branch_lengths` is not an alarm)"""
    ps = list(tm.parameters())
    if len(ps) != 1:
        raise RuntimeError("tree model %r exposes %d parameters, expected exactly one" % (getattr(tm, "id", tm), len(ps)))
    return ps[0]
