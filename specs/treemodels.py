"""helpers shared by C06/C07/C08...: build REAL torchtree tree-model objects from a nested-tuple
topology, and the oracle's independent view of the same tree (documented index convention)."""
from specs import trees


def make_taxa(names, dates):
    from torchtree.evolution.taxa import Taxa, Taxon
    return Taxa("taxa", [Taxon(n, {"date": d}) for n, d in zip(names, dates)])


def newick_of(tree_nested, names):
    return trees.to_newick(tree_nested, names)


def oracle_view(newick, taxa_names):
    nodes, root = trees.index_tree(trees.parse_newick(newick), taxa_names)
    return nodes, root


def ages_of(dates):
    """documented convention: dates are ages when the smallest is 0, calendar dates otherwise"""
    if min(dates) == 0.0:
        return list(dates)
    m = max(dates)
    return [m - d for d in dates]


def build_reparam(tree_nested, names, dates, param, kind="ratios"):
    """real ReparameterizedTimeTreeModel; param: tensor-like of shape [..., T-1]"""
    from torchtree.core.parameter import Parameter
    from torchtree.evolution.tree_model import ReparameterizedTimeTreeModel, initialize_dates_from_taxa, parse_tree
    taxa = make_taxa(names, dates)
    newick = newick_of(tree_nested, names)
    tree = parse_tree(taxa, {"newick": newick})
    initialize_dates_from_taxa(tree, taxa)
    p = Parameter("p", param)
    if kind == "ratios":
        tm = ReparameterizedTimeTreeModel("tree", tree, taxa, ratios_root_height=p)
    else:
        tm = ReparameterizedTimeTreeModel("tree", tree, taxa, shifts=p)
    return tm, newick


def build_timetree(tree_nested, names, dates, heights):
    from torchtree.core.parameter import Parameter
    from torchtree.evolution.tree_model import TimeTreeModel, initialize_dates_from_taxa, parse_tree
    taxa = make_taxa(names, dates)
    newick = newick_of(tree_nested, names)
    tree = parse_tree(taxa, {"newick": newick})
    initialize_dates_from_taxa(tree, taxa)
    return TimeTreeModel("tree", tree, taxa, Parameter("h", heights)), newick


def bounds_of(nodes, root, ages, T):
    """oldest tip below each node (oracle)"""
    b = {}

    def rec(i):
        if not nodes[i]["children"]:
            b[i] = ages[i]
        else:
            b[i] = max(rec(c) for c in nodes[i]["children"])
        return b[i]
    rec(root)
    return b


DATE_PATTERNS = {
    "iso": lambda T: [0.0] * T,
    "hetero": lambda T: [float((i * 3) % (T + 1)) for i in range(T)],
    "ties": lambda T: [float(i // 2) for i in range(T)],
    "calendar": lambda T: [2000.0 + float((i * 5) % (T + 2)) for i in range(T)],
}
