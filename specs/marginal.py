"""Oracle for C01-C03, written from the property statement: the site likelihood is the sum,
over every assignment of states to the internal nodes and every rate category, of
root frequency x branch transition probabilities x tip compatibility.

Generic in the number type (works on vt.nf.RF, floats, mpmath)."""
import itertools


def site_likelihood(children, root, S, K, P, pi, w, tip, zero=0):
    """children: dict node -> list of child nodes (leaves: []), any arity.
    P(b, k, i, j): transition prob on the branch above node b, category k, parent state i, child state j
    pi(i), w(k), tip(leaf, j) compatibility of leaf with state j.
    Brute force over assignments (no dynamic programming on purpose)."""
    internal = [n for n, ch in children.items() if ch]
    leaves = [n for n, ch in children.items() if not ch]
    total = zero
    for k in range(K):
        for assign in itertools.product(range(S), repeat=len(internal)):
            a = dict(zip(internal, assign))
            term = w(k) * pi(a[root])
            dead = False
            for n in internal:
                for c in children[n]:
                    if children[c]:
                        term = term * P(c, k, a[n], a[c])
                    else:
                        s = zero
                        for j in range(S):
                            tj = tip(c, j)
                            if _is_zero(tj):
                                continue
                            s = s + P(c, k, a[n], j) * tj
                        term = term * s
            total = total + term
    return total


def _is_zero(x):
    try:
        return isinstance(x, (int, float)) and x == 0
    except Exception:
        return False


def jc69_logspace(tree, tip_symbols, bl, root_split=(1.0, 0.0)):
    """Independent oracle for large trees: log marginal likelihood of ONE alignment column under JC69 by pruning in LOG space (no underflow),
    Python floats only.  tree: nested tuples of tip indices; tip_symbols[i] in 'ACGT'; every branch has length bl, the two branches below the
    root have lengths bl*root_split[0] and bl*root_split[1] (an unrooted tree: only their sum matters for a reversible model)."""
    import math
    import sys
    sys.setrecursionlimit(max(20000, sys.getrecursionlimit()))
    NEG = float("-inf")

    def logp(b):
        e = math.exp(-4.0 * b / 3.0)
        same, diff = 0.25 + 0.75 * e, 0.25 - 0.25 * e
        return math.log(same), (math.log(diff) if diff > 0 else NEG)

    def lse(xs):
        m = max(xs)
        if m == NEG:
            return NEG
        return m + math.log(sum(math.exp(x - m) for x in xs))

    def up(child_vec, b):
        ls, ld = logp(b)
        return [lse([(ls if i == j else ld) + child_vec[j] for j in range(4)]) for i in range(4)]

    def rec(node):
        if not isinstance(node, tuple):
            s = "ACGT".index(tip_symbols[node])
            return [0.0 if i == s else NEG for i in range(4)]
        l, r = rec(node[0]), rec(node[1])
        return l, r

    def prune(node, is_root=False):
        if not isinstance(node, tuple):
            s = "ACGT".index(tip_symbols[node])
            return [0.0 if i == s else NEG for i in range(4)]
        lv, rv = prune(node[0]), prune(node[1])
        bl_l, bl_r = (bl * root_split[0], bl * root_split[1]) if is_root else (bl, bl)
        a, b = up(lv, bl_l), up(rv, bl_r)
        return [a[i] + b[i] for i in range(4)]
    root = prune(tree, True)
    return lse([math.log(0.25) + x for x in root])
