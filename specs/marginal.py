"""Oracle for C01-C03, written from the property statement: the site likelihood is the sum,
over every assignment of states to the internal nodes and every rate category, of
root frequency x branch transition probabilities x tip compatibility.

Generic in the number type (works on vt.nf.RF, floats, mpmath)."""
import itertools


def site_likelihood(children, root, S, K, P, pi, w, tip, zero=0):
    """children: dict node -> list of child nodes (leaves: []), any arity.
    P(b, k, i, j): transition prob on the branch above node b, category k, parent state i, child state j
    pi(i), w(k), tip(leaf, j) compatibility of leaf with state j.
    Brute force over assignments (no dynamic programming on purpose)."""
    internal = [n for n, ch in children.items() if ch]
    leaves = [n for n, ch in children.items() if not ch]
    total = zero
    for k in range(K):
        for assign in itertools.product(range(S), repeat=len(internal)):
            a = dict(zip(internal, assign))
            term = w(k) * pi(a[root])
            dead = False
            for n in internal:
                for c in children[n]:
                    if children[c]:
                        term = term * P(c, k, a[n], a[c])
                    else:
                        s = zero
                        for j in range(S):
                            tj = tip(c, j)
                            if _is_zero(tj):
                                continue
                            s = s + P(c, k, a[n], j) * tj
                        term = term * s
            total = total + term
    return total


def _is_zero(x):
    try:
        return isinstance(x, (int, float)) and x == 0
    except Exception:
        return False
