"""Independent tree utilities for the oracles: topology enumeration, a small newick
parser/writer, and the *documented* index convention (leaf index = position of the label
in the taxa list; internal indices T.. in post-order; root last)."""
import itertools
import random


def all_rooted_binary(leaves):
    """all rooted binary trees over the given leaf labels, as nested 2-tuples"""
    leaves = list(leaves)
    if len(leaves) == 1:
        yield leaves[0]
        return
    if len(leaves) == 2:
        yield (leaves[0], leaves[1])
        return
    last = leaves[-1]
    for t in all_rooted_binary(leaves[:-1]):
        yield from _insert(t, last)


def _insert(t, leaf):
    # new root edge
    yield (t, leaf)
    if isinstance(t, tuple):
        l, r = t
        for l2 in _insert(l, leaf):
            yield (l2, r)
        for r2 in _insert(r, leaf):
            yield (l, r2)


def shuffle_children(t, rng):
    if not isinstance(t, tuple):
        return t
    l, r = shuffle_children(t[0], rng), shuffle_children(t[1], rng)
    return (r, l) if rng.random() < 0.5 else (l, r)


def random_tree(leaves, rng):
    nodes = list(leaves)
    rng.shuffle(nodes)
    while len(nodes) > 1:
        i = rng.randrange(len(nodes))
        a = nodes.pop(i)
        j = rng.randrange(len(nodes))
        b = nodes.pop(j)
        nodes.append((a, b))
    return nodes[0]


def caterpillar(leaves):
    t = leaves[0]
    for l in leaves[1:]:
        t = (t, l)
    return t


def to_newick(t, names=None, lengths=None):
    """lengths: optional function(subtree) -> float or None"""
    def rec(s, top=False):
        if isinstance(s, tuple):
            body = "(" + ",".join(rec(c) for c in s) + ")"
        else:
            body = names[s] if names is not None else str(s)
        if not top and lengths is not None:
            body += ":%s" % lengths(s)
        return body
    return rec(t, True) + ";"


def parse_newick(s):
    """-> nested structure: leaf = (name, length) ; internal = ([children], length)"""
    s = s.strip().rstrip(";")
    pos = 0

    def node():
        nonlocal pos
        if s[pos] == "(":
            pos += 1
            ch = [node()]
            while s[pos] == ",":
                pos += 1
                ch.append(node())
            assert s[pos] == ")"
            pos += 1
            name = label()
            return {"children": ch, "name": name, "length": length()}
        name = label()
        return {"children": [], "name": name, "length": length()}

    def label():
        nonlocal pos
        st = pos
        while pos < len(s) and s[pos] not in ",():;":
            pos += 1
        return s[st:pos]

    def length():
        nonlocal pos
        if pos < len(s) and s[pos] == ":":
            pos += 1
            st = pos
            while pos < len(s) and s[pos] not in ",()":
                pos += 1
            return float(s[st:pos])
        return None

    return node()


def index_tree(root, taxa):
    """documented convention: leaf index = position in `taxa`; internal nodes numbered
    T, T+1, ... in post-order. Returns (nodes: dict idx -> dict(children=[idx], parent, name, length), root_idx)"""
    T = len(taxa)
    pos = {n: i for i, n in enumerate(taxa)}
    nodes = {}
    counter = itertools.count(T)

    def rec(n):
        ch = [rec(c) for c in n["children"]]
        if not ch:
            i = pos[n["name"]]
        else:
            i = next(counter)
        nodes[i] = {"children": ch, "parent": None, "name": n["name"], "length": n["length"]}
        for c in ch:
            nodes[c]["parent"] = i
        return i

    r = rec(root)
    return nodes, r


def postorder_triples(t, T):
    """nested tuples over leaf ints 0..T-1 -> post_indexing list (node,left,right) and dict"""
    out = []
    counter = itertools.count(T)

    def rec(s):
        if not isinstance(s, tuple):
            return s
        l = rec(s[0])
        r = rec(s[1])
        i = next(counter)
        out.append((i, l, r))
        return i
    rec(t)
    return out
