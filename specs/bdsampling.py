"""Oracle for C09, written from the literature and NOT from torchtree:

T. Stadler (2010) "Sampling-through-time in birth-death trees", J. Theor. Biol. 267, Theorem 3.5 (density of an
oriented sampled tree given the time of origin x0), with the removal probability r of Gavryushkina et al. (2014)
"Bayesian inference of sampled ancestor trees" (Stadler 2010 is r = 0, the skyline paper Stadler et al. 2013 is r = 1).

Time is measured BACKWARDS from the present (the present is 0, the origin is x0 > every node).

  c1 = sqrt((lam - mu - psi)^2 + 4 lam psi)
  c2 = -(lam - mu - 2 lam rho - psi) / c1
  q(t)  = 2 (1 - c2^2) + exp(-c1 t) (1 - c2)^2 + exp(c1 t) (1 + c2)^2
  p0(t) = [lam + mu + psi + c1 (exp(-c1 t)(1 - c2) - (1 + c2)) / (exp(-c1 t)(1 - c2) + (1 + c2))] / (2 lam)
          probability that an individual alive at time t before the present has no sampled descendant
          (p0 solves  dp0/dt = mu - (lam+mu+psi) p0 + lam p0^2,  p0(0) = 1 - rho)

  tree with m extant tips (rho-sampled at time 0), k serially sampled tips at y_1..y_k, no sampled ancestors,
  N = m + k tips, branching times x_1..x_{N-1}, origin x_0:

  f[T | x0] = lam^(N-1) (4 rho)^m  prod_{i=0}^{N-1} 1/q(x_i)  prod_{j=1}^{k} psi (r + (1-r) p0(y_j)) q(y_j)

  conditioned on at least one sampled individual:  f / (1 - p0(x0)).

The density is the one of ORIENTED trees (Stadler 2010, Thm 3.5); `labelled_factor_log(N)` is the constant (N-1) log 2
by which BEAST2's sampled-ancestor convention (and torchtree whenever a removal probability is given) differs.

Everything is generic in the number type: vt.nf.RF (exact, symbolic) or float.

The second half of the file is the *numerical* reference for the clause "matches numerical integration of the
birth-death master equations along the tree" (piecewise-constant rates): a fixed-step RK4 integration of
   dp0/dt = mu - (lam+mu+psi) p0 + lam p0^2 ,   d(log g)/dt = -(lam+mu+psi) + 2 lam p0
backwards in time along every branch, with the event rules
   extant tip (time 0)             g = rho_0
   serially sampled tip at y       g = psi (r + (1-r) p0(y))
   tip sampled at a rho-event b_j  g = rho_j (r + (1-r) p0(b_j+))       [r = 1 when no removal probability is given]
   branching at x                  g = lam g_left g_right
   crossing a boundary b_j         p0 <- (1-rho_j) p0 ,  g <- (1-rho_j) g ; rates switch to the older epoch
   origin                          density g(x0)   [ / (1 - p0(x0)) when conditioned on sampling ]
"""
import math

from vt import nf
from vt.scenario import sexp, slog, ssqrt


# ----------------------------------------------------------------------------------------------
# closed form (Stadler 2010)


def c1(lam, mu, psi):
    return ssqrt((lam - mu - psi) * (lam - mu - psi) + 4 * lam * psi)


def c2(lam, mu, psi, rho, c1v=None):
    c1v = c1(lam, mu, psi) if c1v is None else c1v
    return -(lam - mu - 2 * lam * rho - psi) / c1v


class Constants:
    """c1, c2 and the functions q, p0 for one set of constant rates"""

    def __init__(self, lam, mu, psi, rho):
        self.lam, self.mu, self.psi, self.rho = lam, mu, psi, rho
        self.c1 = c1(lam, mu, psi)
        self.c2 = c2(lam, mu, psi, rho, self.c1)

    def q(self, t):
        a, b = self.c1, self.c2
        return 2 * (1 - b * b) + sexp(-a * t) * (1 - b) * (1 - b) + sexp(a * t) * (1 + b) * (1 + b)

    def p0(self, t):
        a, b = self.c1, self.c2
        e = sexp(-a * t)
        return (self.lam + self.mu + self.psi + a * (e * (1 - b) - (1 + b)) / (e * (1 - b) + (1 + b))) / (2 * self.lam)


def factors(x0, branching, serial, n_extant, lam, mu, psi, rho, r=1, survival=False):
    """the density as a list of (base, integer exponent) factors (all bases > 0 on the domain)"""
    K = Constants(lam, mu, psi, rho)
    N = n_extant + len(serial)
    if len(branching) != N - 1:
        raise ValueError("a binary tree with %d tips has %d branching times" % (N, N - 1))
    fs = []
    if N - 1:
        fs.append((lam, N - 1))
    if n_extant:
        fs.append((4 * rho, n_extant))
    for x in [x0] + list(branching):
        fs.append((K.q(x), -1))
    for y in serial:
        fs.append((psi, 1))
        rr = r + (1 - r) * K.p0(y)
        if not _is_one(rr):
            fs.append((rr, 1))
        fs.append((K.q(y), 1))
    if survival:
        fs.append((1 - K.p0(x0), -1))
    return fs


def _is_one(x):
    if isinstance(x, nf.RF):
        return x.is_const() and x.const_value() == 1
    return x == 1


def density(*a, **k):
    out = 1
    for b, e in factors(*a, **k):
        out = out * b ** e
    return out


def log_density(*a, **k):
    out = 0
    for b, e in factors(*a, **k):
        out = out + e * slog(b)
    return out


def labelled_factor_log(n_tips):
    """log 2^(N-1): oriented tree -> BEAST2 sampled-ancestor convention"""
    return (n_tips - 1) * math.log(2.0)


# ----------------------------------------------------------------------------------------------
# master equations, numerical (floats only)


class Epochs:
    """piecewise-constant rates in BACKWARD time: epoch j covers [b[j], b[j+1]) with b[0] = 0 and b[m] = +inf;
    rho[j] is the probability of the sampling event AT b[j] (rho[0]: the present)."""

    def __init__(self, bounds, lam, mu, psi, rho, r=None):
        assert bounds[0] == 0.0 and len(bounds) == len(lam) == len(mu) == len(psi) == len(rho)
        assert all(b1 > b0 for b0, b1 in zip(bounds, bounds[1:]))
        self.b, self.lam, self.mu, self.psi, self.rho = list(bounds), list(lam), list(mu), list(psi), list(rho)
        self.r = list(r) if r is not None else None

    def index(self, t):
        """epoch j with b[j] <= t < b[j+1].  An event exactly on a boundary b[j] (j > 0) is thus attributed to the OLDER
        epoch j; this only matters for tips sampled BY the rho-event of that boundary (they start, removed or not, on the
        older side).  psi-sampled tips and branching times exactly on a boundary between epochs with different rates are
        a measure-zero ambiguity of the density and are never generated by the callers."""
        j = 0
        for k, b in enumerate(self.b):
            if t >= b:
                j = k
        return j


def _rk4_segment(p, L, t0, t1, lam, mu, psi, h):
    """integrate p0 and log g from t0 to t1 (backward time increasing)"""
    n = max(1, int(math.ceil((t1 - t0) / h)))
    dt = (t1 - t0) / n
    s = lam + mu + psi

    def f(p):
        return mu - s * p + lam * p * p

    for _ in range(n):
        k1 = f(p)
        k2 = f(p + 0.5 * dt * k1)
        k3 = f(p + 0.5 * dt * k2)
        k4 = f(p + dt * k3)
        pn = p + dt * (k1 + 2 * k2 + 2 * k3 + k4) / 6.0
        # d(log g) = (-s + 2 lam p) dt : Simpson's rule with the midpoint value of p from cubic Hermite interpolation
        pmid = 0.5 * (p + pn) + dt * (k1 - f(pn)) / 8.0
        L = L + dt * (-s + 2 * lam * (p + 4 * pmid + pn) / 6.0)
        p = pn
    return p, L


class _P0Table:
    """p0 just after (older side of) every boundary and on demand, by integration from the present"""

    def __init__(self, ep, h):
        self.ep, self.h = ep, h
        # p0 at b_j taken on the older side (after thinning by rho_j)
        self.at_bound = []
        p = 1.0
        for j, b in enumerate(ep.b):
            if j > 0:
                p, _ = _rk4_segment(self.at_bound[j - 1], 0.0, ep.b[j - 1], b, ep.lam[j - 1], ep.mu[j - 1], ep.psi[j - 1], h)
            p = (1.0 - ep.rho[j]) * p
            self.at_bound.append(p)

    def p0(self, t, older_side=True):
        """p0 at time t; at a boundary: value after the thinning (older side) or before it"""
        ep = self.ep
        j = ep.index(t)
        if t == ep.b[j]:
            if older_side:
                return self.at_bound[j]
            return self.at_bound[j] / (1.0 - ep.rho[j]) if ep.rho[j] < 1.0 else self._before(j)
        p, _ = _rk4_segment(self.at_bound[j], 0.0, ep.b[j], t, ep.lam[j], ep.mu[j], ep.psi[j], self.h)
        return p

    def _before(self, j):
        if j == 0:
            return 1.0
        ep = self.ep
        p, _ = _rk4_segment(self.at_bound[j - 1], 0.0, ep.b[j - 1], ep.b[j], ep.lam[j - 1], ep.mu[j - 1], ep.psi[j - 1], self.h)
        return p


def ode_log_density(tree, tip_heights, node_height, x0, ep, survival=False, h=2e-4, rho_tips=()):
    """tree: nested 2-tuples of tip indices; tip_heights[i]; node_height(subtree) -> height of an internal node;
    rho_tips: indices of tips that were sampled by the rho-event at their (boundary) time; tips at height 0 are
    rho-sampled iff ep.rho[0] > 0.  Returns the log density of the oriented tree given the origin x0."""
    tab = _P0Table(ep, h)

    def climb(L, t0, t1):
        """carry log g of one lineage from t0 (taken on the older side of a boundary it may sit on) up to t1 > t0;
        a boundary reached on the way - also when t1 lies exactly on it - thins the lineage by (1 - rho_j)"""
        j = ep.index(t0)
        t = t0
        while True:
            nxt = ep.b[j + 1] if j + 1 < len(ep.b) else math.inf
            end = min(t1, nxt)
            p = tab.p0(t, older_side=True)
            _, L = _rk4_segment(p, L, t, end, ep.lam[j], ep.mu[j], ep.psi[j], h)
            t = end
            if t == nxt:
                if ep.rho[j + 1] >= 1.0:
                    return -math.inf
                L = L + math.log(1.0 - ep.rho[j + 1])
                j += 1
            if t >= t1:
                return L

    def rec(s):
        """-> (log g at the node, node time, epoch-side: value is on the older side of its own time)"""
        if not isinstance(s, tuple):
            y = tip_heights[s]
            j = ep.index(y)
            r = 1.0 if ep.r is None else ep.r[j]
            if y == 0.0 and ep.rho[0] > 0.0:
                # rho-sampled at the present; with removal probability r < 1 the individual may keep living, but after
                # the present nothing is observed: factor rho_0
                return math.log(ep.rho[0]), y
            if s in rho_tips:
                # the individual keeps living with probability 1-r and must then leave no sample AFTER the event
                p = tab.p0(y, older_side=False)
                return math.log(ep.rho[j]) + math.log(r + (1.0 - r) * p), y
            p = tab.p0(y, older_side=True)
            return math.log(ep.psi[j]) + math.log(r + (1.0 - r) * p), y
        (La, ta), (Lb, tb) = rec(s[0]), rec(s[1])
        x = node_height(s)
        j = ep.index(x)
        return math.log(ep.lam[j]) + climb(La, ta, x) + climb(Lb, tb, x), x

    L, t = rec(tree)
    L = climb(L, t, x0)
    if survival:
        L = L - math.log(1.0 - tab.p0(x0))
    return L
