"""Process isolation for obligations about state kept at class or module level.

`fresh(fn, *args)` evaluates fn(*args) in a child forked (os.fork: obligation workers are daemonic pool processes, which may not use
multiprocessing themselves) from the CURRENT process and returns its picklable result.  Called before the parent has built any object of
the code under contract, the child sees the repository modules in the state a new Python process has them (class attributes, module-level
caches and registries untouched by other instances); the parent then builds several instances in its own process and compares.
An exception in the child is re-raised in the parent as IsolatedError (the traceback text is kept)."""
import os
import pickle
import select
import traceback


class IsolatedError(Exception):
    pass


def fresh(fn, *args, timeout=600):
    r, w = os.pipe()
    pid = os.fork()
    if pid == 0:
        status = 0
        try:
            os.close(r)
            try:
                payload = pickle.dumps(("ok", fn(*args)))
            except BaseException as e:  # noqa: BLE001
                payload = pickle.dumps(("exc", "%s: %s\n%s" % (type(e).__name__, e, traceback.format_exc())))
            with os.fdopen(w, "wb") as f:
                f.write(payload)
        except BaseException:  # noqa: BLE001
            status = 1
        finally:
            os._exit(status)
    os.close(w)
    chunks = []
    try:
        with os.fdopen(r, "rb") as f:
            while True:
                ready, _, _ = select.select([f], [], [], timeout)
                if not ready:
                    os.kill(pid, 9)
                    raise IsolatedError("no result from the isolated process within %ss" % timeout)
                b = os.read(f.fileno(), 1 << 16)
                if not b:
                    break
                chunks.append(b)
    finally:
        try:
            os.waitpid(pid, 0)
        except ChildProcessError:
            pass
    if not chunks:
        raise IsolatedError("the isolated process died without a result")
    kind, val = pickle.loads(b"".join(chunks))
    if kind == "exc":
        raise IsolatedError(val)
    return val
