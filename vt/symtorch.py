"""Symbolic tensor-like `ST` (DESIGN 2.1): a numpy object array of `nf.RF` that takes
part in torch calls through the `__torch_function__` protocol, so that unmodified
repository functions can be executed on symbolic values.

Integer / boolean results (indices, masks, comparison outcomes) are *concrete* torch
tensors: a comparison on symbolic data forks (cond.Cond.__bool__).
An operation without a handler raises `Undecided` – it can never produce a verdict.
"""
from __future__ import annotations

import builtins
import math
from fractions import Fraction as Q

import numpy as np
import torch

from . import nf
from .cond import Cond, Undecided, sym_argsort
from .nf import RF

OPS_USED = set()  # names of torch entry points dispatched (reported as trusted base)
HANDLERS = {}
SG_MODE = [False]  # when True, graph-cutting ops wrap values in sg(.) (C12)


def _sg(v):
    if v.is_const():
        return v
    ats = v.atoms()
    if len(ats) == 1 and v.d.is_one() and len(v.n.t) == 1:
        i = next(iter(ats))
        if nf.ATOMS.atoms[i][0] == "fn" and nf.ATOMS.atoms[i][1][0] == "sg" and v.same(nf.atom_rf(i)):
            return v
    return nf.ufn("sg", v)


def _obj(x):
    """anything -> numpy array (object dtype for reals, int64/bool kept)"""
    if isinstance(x, ST):
        return x.a
    if isinstance(x, torch.Tensor):
        if x.dtype.is_floating_point:
            bits = 52 if x.dtype == torch.float64 else (23 if x.dtype == torch.float32 else 9)
            arr = x.detach().cpu().double().numpy()
            out = np.empty(arr.shape, dtype=object)
            flat = out.reshape(-1)
            for i, v in enumerate(arr.reshape(-1)):
                flat[i] = nf.const(nf.rationalise(float(v), bits))
            return out
        return x.detach().cpu().numpy()
    if isinstance(x, RF):
        out = np.empty((), dtype=object)
        out[()] = x
        return out
    if isinstance(x, (int, float, Q, bool)):
        out = np.empty((), dtype=object)
        out[()] = nf.const(x)
        return out
    if isinstance(x, np.ndarray):
        return x
    if isinstance(x, (list, tuple)):
        return np.array([_obj(e) for e in x], dtype=object) if any(isinstance(e, (ST, RF)) for e in x) \
            else np.asarray(x)
    if hasattr(x, "tensor"):
        return _obj(x.tensor)
    raise Undecided("cannot convert %r to symbolic array" % type(x))


def _wrap(a):
    """numpy result -> ST or torch tensor"""
    if isinstance(a, RF):
        out = np.empty((), dtype=object)
        out[()] = a
        return ST(out)
    if isinstance(a, np.ndarray):
        if a.dtype == object:
            return ST(a)
        return torch.from_numpy(np.ascontiguousarray(a))
    if isinstance(a, (np.integer,)):
        return torch.tensor(int(a))
    if isinstance(a, (np.bool_, bool)):
        return torch.tensor(bool(a))
    if isinstance(a, (int, float)):
        return torch.tensor(a)
    return a


def _idx(i):
    if isinstance(i, tuple):
        return tuple(_idx(j) for j in i)
    if isinstance(i, torch.Tensor):
        a = i.detach().cpu().numpy()
        return a if a.ndim > 0 else a[()]
    if isinstance(i, ST):
        # symbolic used as index: must be constant integers
        return np.vectorize(lambda r: int(r))(i.a).astype(np.int64)
    if isinstance(i, list):
        return [_idx(j) for j in i]
    return i


def _split_index(a, idx):
    """torch treats integer indices as basic `select` even when tensor indices are present;
    numpy treats them as advanced indices. Apply the integers first (a view), return the
    remaining index for a second step."""
    if not isinstance(idx, tuple):
        return a, idx
    has_arr = any(isinstance(j, (np.ndarray, list)) for j in idx)
    has_int = any(isinstance(j, (int, np.integer)) and not isinstance(j, bool) for j in idx)
    if not (has_arr and has_int):
        return a, idx
    # expand ellipsis
    n_real = sum(1 for j in idx if j is not None and j is not Ellipsis and not (isinstance(j, np.ndarray) and j.dtype == bool and j.ndim > 1))
    n_real += sum(j.ndim for j in idx if isinstance(j, np.ndarray) and j.dtype == bool and j.ndim > 1)
    full = []
    for j in idx:
        if j is Ellipsis:
            full.extend([slice(None)] * (a.ndim - n_real))
        else:
            full.append(j)
    first = []
    rest = []
    for j in full:
        if j is None:
            rest.append(None)
        elif isinstance(j, (int, np.integer)) and not isinstance(j, bool):
            first.append(int(j))
        else:
            first.append(slice(None))
            if isinstance(j, np.ndarray) and j.dtype == bool and j.ndim > 1:
                first.extend([slice(None)] * (j.ndim - 1))
            rest.append(j)
    return a[tuple(first)], tuple(rest)


def _force_bool(arr):
    """array of bool/Cond -> numpy bool (forks)"""
    if isinstance(arr, (bool, np.bool_)):
        return np.asarray(bool(arr))
    if isinstance(arr, Cond):
        return np.asarray(bool(arr))
    arr = np.asarray(arr, dtype=object)
    out = np.empty(arr.shape, dtype=bool)
    of = out.reshape(-1)
    for i, c in enumerate(arr.reshape(-1)):
        of[i] = bool(c)
    return out


def _map(f, a):
    out = np.empty(a.shape, dtype=object)
    of = out.reshape(-1)
    for i, v in enumerate(a.reshape(-1)):
        of[i] = f(v)
    return out


def _as_float_obj(a):
    """int/bool numpy array -> object array of RF"""
    if a.dtype == object:
        return a
    return _map(lambda v: nf.const(int(v) if not isinstance(v, (float, np.floating)) else float(v)), np.asarray(a))


class ST:
    """symbolic tensor"""
    __array_priority__ = 2000

    def __init__(self, a):
        if not isinstance(a, np.ndarray):
            a = _obj(a)
        if a.dtype != object:
            a = _as_float_obj(a)
        if SG_MODE[0] and not torch.is_grad_enabled():
            # results produced under torch.no_grad() are cut from the autograd graph (ghost marker)
            a = _map(_sg, a)
        self.a = a
        self.requires_grad = False
        self.grad = None
        self.grad_fn = None
        self.is_leaf = True

    # --- torch protocol
    @classmethod
    def __torch_function__(cls, func, types, args=(), kwargs=None):
        kwargs = kwargs or {}
        h = HANDLERS.get(func)
        if h is None:
            name = getattr(func, "__name__", None) or str(func)
            h = HANDLERS.get(name)
        if h is None:
            raise Undecided("unsupported torch op for symbolic tensors: %s" % getattr(func, "__qualname__", func))
        OPS_USED.add(getattr(func, "__qualname__", None) or getattr(func, "__name__", str(func)))
        return h(*args, **kwargs)

    # --- metadata
    @property
    def shape(self):
        return torch.Size(self.a.shape)

    @property
    def dtype(self):
        return torch.float64

    @property
    def device(self):
        return torch.device("cpu")

    @property
    def ndim(self):
        return self.a.ndim

    @property
    def is_cuda(self):
        return False

    @property
    def data(self):
        return self

    @property
    def T(self):
        return ST(self.a.T)

    @property
    def mT(self):
        return ST(np.swapaxes(self.a, -1, -2))

    def dim(self):
        return self.a.ndim

    def size(self, d=None):
        return self.shape if d is None else self.a.shape[d]

    def numel(self):
        return int(self.a.size)

    def nelement(self):
        return int(self.a.size)

    def __len__(self):
        if self.a.ndim == 0:
            raise TypeError("len() of a 0-d tensor")
        return self.a.shape[0]

    def __iter__(self):
        if self.a.ndim == 0:
            raise TypeError("iteration over a 0-d tensor")
        for i in range(self.a.shape[0]):
            yield self[i]

    def __repr__(self):
        return "ST(shape=%s)" % (tuple(self.a.shape),)

    def __hash__(self):
        return id(self)

    def __bool__(self):
        if self.a.size != 1:
            raise RuntimeError("Boolean value of Tensor with more than one value is ambiguous")
        return bool(self.a.reshape(-1)[0])

    def __float__(self):
        return float(self.item())

    def __int__(self):
        return int(self.item())

    def item(self):
        if self.a.size != 1:
            raise ValueError("only one element tensors can be converted to Python scalars")
        v = self.a.reshape(-1)[0]
        if v.is_const():
            return float(v.const_value())
        return _sg(v) if SG_MODE[0] else v

    def tolist(self):
        def conv(v):
            return float(v.const_value()) if v.is_const() else v
        return _map(conv, self.a).tolist()

    def numpy(self):
        return self.a

    # --- indexing
    def __getitem__(self, i):
        view, rest = _split_index(self.a, _idx(i))
        r = view[rest] if rest is not None else view
        if isinstance(r, RF):
            out = np.empty((), dtype=object)
            out[()] = r
            r = out
        return ST(r)

    def __setitem__(self, i, v):
        i = _idx(i)
        val = _obj(v)
        if val.dtype != object:
            val = _as_float_obj(val)
        view, rest = _split_index(self.a, i)
        if rest is None:
            rest = Ellipsis
        if not isinstance(view, np.ndarray):
            self.a[i] = val if val.ndim > 0 else val[()]
        else:
            view[rest] = val if val.ndim > 0 else val[()]

    # --- arithmetic (python operators)
    def _bin(self, o, f, rev=False):
        try:
            b = _obj(o)
        except Undecided:
            return NotImplemented
        if b.dtype != object:
            b = _as_float_obj(b)
        x, y = (b, self.a) if rev else (self.a, b)
        return ST(np.asarray(f(x, y), dtype=object))

    def __add__(self, o):
        return self._bin(o, np.add)

    def __radd__(self, o):
        return self._bin(o, np.add, True)

    def __sub__(self, o):
        return self._bin(o, np.subtract)

    def __rsub__(self, o):
        return self._bin(o, np.subtract, True)

    def __mul__(self, o):
        return self._bin(o, np.multiply)

    def __rmul__(self, o):
        return self._bin(o, np.multiply, True)

    def __truediv__(self, o):
        return self._bin(o, np.true_divide)

    def __rtruediv__(self, o):
        return self._bin(o, np.true_divide, True)

    def __pow__(self, o):
        return _pow(self, o)

    def __rpow__(self, o):
        return _pow(o, self)

    def __neg__(self):
        return ST(-self.a)

    def __pos__(self):
        return self

    def __abs__(self):
        return ST(_map(nf.rabs, self.a))

    def __matmul__(self, o):
        return _matmul(self, o)

    def __rmatmul__(self, o):
        return _matmul(o, self)

    # in-place: mutate shared buffer like torch
    def _ibin(self, o, f):
        r = self._bin(o, f)
        if r.a.shape != self.a.shape:
            raise RuntimeError("output with shape %s doesn't match the broadcast shape %s" % (self.a.shape, r.a.shape))
        self.a[...] = r.a
        return self

    def __iadd__(self, o):
        return self._ibin(o, np.add)

    def __isub__(self, o):
        return self._ibin(o, np.subtract)

    def __imul__(self, o):
        return self._ibin(o, np.multiply)

    def __itruediv__(self, o):
        return self._ibin(o, np.true_divide)

    # comparisons -> concrete bool tensors (fork)
    def _cmp(self, o, op):
        sp = _cmp_infinite(self.a, o, op)
        if sp is not None:
            return sp
        b = _obj(o)
        if b.dtype != object:
            b = _as_float_obj(b)
        return torch.from_numpy(_force_bool(op(self.a, b)))

    def __lt__(self, o):
        return self._cmp(o, np.less)

    def __le__(self, o):
        return self._cmp(o, np.less_equal)

    def __gt__(self, o):
        return self._cmp(o, np.greater)

    def __ge__(self, o):
        return self._cmp(o, np.greater_equal)

    def __eq__(self, o):
        return self._cmp(o, np.equal)

    def __ne__(self, o):
        return self._cmp(o, np.not_equal)

    def __getattr__(self, name):
        # tensor methods: route to the torch.Tensor method handler (same table)
        if name.startswith("__"):
            raise AttributeError(name)
        f = getattr(torch.Tensor, name, None)
        h = None
        if f is not None:
            h = HANDLERS.get(f)
        if h is None:
            h = HANDLERS.get(name)
        if h is None:
            raise Undecided("unsupported tensor method on symbolic tensor: %s" % name)
        OPS_USED.add("Tensor." + name)
        return lambda *a, **k: h(self, *a, **k)


# --------------------------------------------------------------------------------------
# handler registration


def reg(*funcs):
    def deco(h):
        for f in funcs:
            if isinstance(f, str):
                HANDLERS[f] = h
                tf = getattr(torch, f, None)
                if tf is not None:
                    HANDLERS[tf] = h
                mf = getattr(torch.Tensor, f, None)
                if mf is not None:
                    HANDLERS[mf] = h
            else:
                HANDLERS[f] = h
        return h
    return deco


def _unary(fn):
    def h(x, *a, **k):
        return ST(_map(fn, _obj_f(x)))
    return h


def _obj_f(x):
    a = _obj(x)
    if a.dtype != object:
        a = _as_float_obj(a)
    return a


reg("log")(_unary(nf.rlog))
reg("exp")(_unary(nf.rexp))
reg("sqrt")(_unary(nf.rsqrt))
reg("abs", "absolute")(_unary(nf.rabs))
reg("neg", "negative")(_unary(lambda v: -v))
reg("reciprocal")(_unary(lambda v: 1 / v))
reg("square")(_unary(lambda v: v * v))
reg("lgamma")(_unary(nf.rlgamma))
reg("digamma")(_unary(nf.rdigamma))
reg("expm1")(_unary(lambda v: nf.rexp(v) - 1))
reg("log1p")(_unary(lambda v: nf.rlog(1 + v)))
reg("sigmoid")(_unary(lambda v: 1 / (1 + nf.rexp(-v))))
reg("rsqrt")(_unary(lambda v: 1 / nf.rsqrt(v)))
reg("log2")(_unary(lambda v: nf.rlog(v) / nf.rlog(nf.const(2))))
HANDLERS[torch.special.expit] = HANDLERS["sigmoid"]
HANDLERS[torch.nn.functional.softplus] = lambda x, beta=1, threshold=20: ST(
    _map(lambda v: nf.rlog(1 + nf.rexp(v * beta)) / beta, _obj_f(x)))
HANDLERS[torch.nn.functional.logsigmoid] = _unary(lambda v: -nf.rlog(1 + nf.rexp(-v)))
HANDLERS[torch.nn.functional.sigmoid] = HANDLERS["sigmoid"]


@reg("clone", "contiguous")
def _clone(x, *a, **k):
    return ST(_obj_f(x).copy())


@reg("detach")
def _detach(x):
    if SG_MODE[0]:
        return ST(_map(_sg, _obj_f(x)))
    return ST(_obj_f(x))


@reg("to", "type", "double", "float", "cpu", "cuda", "type_as", "detach_")
def _ident(x, *a, **k):
    return x


@reg("requires_grad_")
def _requires_grad_(x, requires_grad=True):
    if isinstance(x, ST):
        x.requires_grad = bool(requires_grad)
    return x


@reg("dim")
def _dim(x):
    return _obj(x).ndim


@reg("size")
def _size(x, d=None):
    s = _obj(x).shape
    return torch.Size(s) if d is None else s[d]


@reg("numel", "nelement")
def _numel(x):
    return int(_obj(x).size)


def _binop(npf):
    def h(x, y, *a, alpha=None, **k):
        xa, ya = _obj_f(x), _obj_f(y)
        if alpha is not None:
            ya = ya * nf.const(alpha)
        out = k.get("out")
        r = ST(np.asarray(npf(xa, ya), dtype=object))
        if out is not None:
            out.a[...] = r.a
            return out
        return r
    return h


reg("add", torch.Tensor.__add__, torch.Tensor.__radd__)(_binop(np.add))
reg("sub", "subtract", torch.Tensor.__sub__)(_binop(np.subtract))
reg("mul", "multiply", torch.Tensor.__mul__, torch.Tensor.__rmul__)(_binop(np.multiply))
reg("div", "true_divide", "divide", torch.Tensor.__truediv__)(_binop(np.true_divide))
reg(torch.Tensor.__rsub__, "rsub")(lambda x, y, **k: _binop(np.subtract)(y, x))
reg(torch.Tensor.__rtruediv__)(lambda x, y, **k: _binop(np.true_divide)(y, x))
reg(torch.Tensor.__rdiv__)(lambda x, y, **k: _binop(np.true_divide)(y, x))


def _inplace(npf):
    def h(x, y, *a, alpha=None, **k):
        ya = _obj_f(y)
        if alpha is not None:
            ya = ya * nf.const(alpha)
        if not isinstance(x, ST):
            raise Undecided("in-place update of a concrete tensor with symbolic data")
        x.a[...] = np.asarray(npf(x.a, ya), dtype=object)
        return x
    return h


reg("add_", torch.Tensor.__iadd__)(_inplace(np.add))
reg("sub_", torch.Tensor.__isub__)(_inplace(np.subtract))
reg("mul_", torch.Tensor.__imul__)(_inplace(np.multiply))
reg("div_", torch.Tensor.__itruediv__)(_inplace(np.true_divide))


@reg("copy_")
def _copy_(x, y, *a, **k):
    x.a[...] = _obj_f(y)
    return x


@reg("fill_")
def _fill_(x, v):
    x.a[...] = nf.as_rf(v) if not isinstance(v, (ST, torch.Tensor)) else _obj_f(v)[()]
    return x


@reg("zero_")
def _zero_(x):
    x.a[...] = nf.ZERO
    return x


@reg("exp_")
def _exp_(x):
    x.a[...] = _map(nf.rexp, x.a)
    return x


@reg("log_")
def _log_(x):
    x.a[...] = _map(nf.rlog, x.a)
    return x


def _pow(x, y):
    xa, ya = _obj_f(x), _obj_f(y)
    xa, ya = np.broadcast_arrays(xa, ya)
    out = np.empty(xa.shape, dtype=object)
    of = out.reshape(-1)
    for i, (b, e) in enumerate(zip(xa.reshape(-1), ya.reshape(-1))):
        of[i] = nf.rpow(b, e)
    return ST(out)


reg("pow", torch.Tensor.__pow__)(lambda x, y, **k: _pow(x, y))
reg(torch.Tensor.__rpow__)(lambda x, y, **k: _pow(y, x))
HANDLERS[torch.float_power] = lambda x, y, **k: _pow(x, y)


@reg("xlogy")
def _xlogy(x, y):
    xa, ya = np.broadcast_arrays(_obj_f(x), _obj_f(y))
    out = np.empty(xa.shape, dtype=object)
    of = out.reshape(-1)
    for i, (a, b) in enumerate(zip(xa.reshape(-1), ya.reshape(-1))):
        of[i] = nf.ZERO if (a.is_const() and a.const_value() == 0) else a * nf.rlog(b)
    return ST(out)


def _matmul(x, y):
    xa, ya = _obj_f(x), _obj_f(y)
    return ST(np.asarray(np.matmul(xa, ya), dtype=object)) if (xa.ndim > 0 and ya.ndim > 0) else ST(xa * ya)


reg("matmul", "mm", "bmm", torch.Tensor.__matmul__)(lambda x, y, **k: _matmul(x, y))
reg(torch.Tensor.__rmatmul__)(lambda x, y, **k: _matmul(y, x))
reg("mv")(lambda x, y: _matmul(x, y))


@reg("dot", "inner", "vdot")
def _dot(x, y):
    return _wrap(np.dot(_obj_f(x), _obj_f(y)))


@reg("ger", "outer")
def _outer(x, y):
    return ST(np.multiply.outer(_obj_f(x), _obj_f(y)))


HANDLERS[torch.nn.functional.linear] = lambda inp, weight, bias=None: (
    _matmul(inp, ST(np.swapaxes(_obj_f(weight), -1, -2))) if bias is None
    else _matmul(inp, ST(np.swapaxes(_obj_f(weight), -1, -2))) + bias)


@reg("einsum")
def _einsum(eq, *ops):
    if len(ops) == 1 and isinstance(ops[0], (list, tuple)):
        ops = ops[0]
    return ST(np.asarray(np.einsum(eq, *[_obj_f(o) for o in ops]), dtype=object))


# --- reductions


def _axis(dim):
    if dim is None:
        return None
    if isinstance(dim, (list, tuple, torch.Size)):
        return tuple(int(d) for d in dim)
    return int(dim)


@reg("sum", "nansum")
def _sum(x, dim=None, keepdim=False, dtype=None, axis=None, **k):
    if axis is not None:
        dim = axis
    a = _obj_f(x)
    if dim == ():
        dim = None
    if a.ndim == 0:
        return ST(a)
    r = np.sum(a, axis=_axis(dim), keepdims=keepdim)
    if isinstance(r, (int,)):  # empty sum
        r = nf.ZERO
    return _wrap(r if isinstance(r, np.ndarray) else nf.as_rf(r))


@reg("prod")
def _prod(x, dim=None, keepdim=False, **k):
    a = _obj_f(x)
    r = np.prod(a, axis=_axis(dim), keepdims=keepdim)
    return _wrap(r if isinstance(r, np.ndarray) else nf.as_rf(r))


@reg("mean")
def _mean(x, dim=None, keepdim=False, **k):
    a = _obj_f(x)
    ax = _axis(dim)
    if ax is None:
        n = a.size
    elif isinstance(ax, tuple):
        n = int(np.prod([a.shape[i] for i in ax]))
    else:
        n = a.shape[ax]
    s = _sum(x, dim, keepdim)
    return s / n


@reg("var")
def _var(x, dim=None, unbiased=True, keepdim=False, correction=None, **k):
    a = _obj_f(x)
    ax = _axis(dim)
    n = a.size if ax is None else (a.shape[ax] if not isinstance(ax, tuple) else int(np.prod([a.shape[i] for i in ax])))
    m = _mean(x, dim, True)
    d = ST(a) - m
    corr = (1 if unbiased else 0) if correction is None else correction
    return _sum(d * d, dim, keepdim) / (n - corr)


@reg("std")
def _std(x, *a, **k):
    return HANDLERS["sqrt"](_var(x, *a, **k))


@reg("cumsum")
def _cumsum(x, dim=None, **k):
    return ST(np.asarray(np.cumsum(_obj_f(x), axis=int(dim)), dtype=object))


@reg("diff")
def _diff(x, n=1, dim=-1, prepend=None, append=None):
    a = _obj_f(x)
    dim = int(dim)
    parts = ([_obj_f(prepend)] if prepend is not None else []) + [a] + ([_obj_f(append)] if append is not None else [])
    if len(parts) > 1:
        a = np.concatenate(parts, axis=dim)
    for _ in range(int(n)):
        hi = [slice(None)] * a.ndim
        lo = [slice(None)] * a.ndim
        hi[dim], lo[dim] = slice(1, None), slice(None, -1)
        a = a[tuple(hi)] - a[tuple(lo)]
    return ST(np.asarray(a, dtype=object))


@reg("cumprod")
def _cumprod(x, dim=None, **k):
    return ST(np.asarray(np.cumprod(_obj_f(x), axis=int(dim)), dtype=object))


@reg("logsumexp")
def _logsumexp(x, dim, keepdim=False):
    e = ST(_map(nf.rexp, _obj_f(x)))
    return ST(_map(nf.rlog, _sum(e, dim, keepdim).a))


@reg("logcumsumexp")
def _logcumsumexp(x, dim):
    e = ST(_map(nf.rexp, _obj_f(x)))
    return ST(_map(nf.rlog, _cumsum(e, dim).a))


@reg("softmax")
def _softmax(x, dim=None, **k):
    e = ST(_map(nf.rexp, _obj_f(x)))
    return e / _sum(e, dim, True)


HANDLERS[torch.nn.functional.softmax] = _softmax


@reg("log_softmax")
def _log_softmax(x, dim=None, **k):
    return ST(_obj_f(x)) - _logsumexp(x, dim, True)


def _argbest(vals, want_max):
    """index of max/min among list of RF (forks); first index on ties"""
    best = 0
    for i in range(1, len(vals)):
        c = (vals[best] < vals[i]) if want_max else (vals[i] < vals[best])
        if bool(c):
            best = i
    return best


def _maxmin(x, dim=None, keepdim=False, want_max=True, other=None):
    a = _obj_f(x)
    if other is not None or isinstance(dim, (ST, torch.Tensor)):
        o = other if other is not None else dim
        return _elementwise_maxmin(x, o, want_max)
    if dim is None:
        flat = list(a.reshape(-1))
        return _wrap(flat[_argbest(flat, want_max)])
    dim = int(dim)
    moved = np.moveaxis(a, dim, -1)
    outv = np.empty(moved.shape[:-1], dtype=object)
    outi = np.empty(moved.shape[:-1], dtype=np.int64)
    for ix in np.ndindex(*moved.shape[:-1]):
        vals = list(moved[ix])
        j = _argbest(vals, want_max)
        outv[ix] = vals[j]
        outi[ix] = j
    if keepdim:
        outv = np.expand_dims(outv, dim)
        outi = np.expand_dims(outi, dim)
    return torch.return_types.max((ST(outv), torch.from_numpy(outi))) if False else _MaxResult(ST(outv), torch.from_numpy(np.asarray(outi)))


class _MaxResult(tuple):
    def __new__(cls, values, indices):
        t = super().__new__(cls, (values, indices))
        return t

    @property
    def values(self):
        return self[0]

    @property
    def indices(self):
        return self[1]


def _elementwise_maxmin(x, y, want_max):
    xa, ya = np.broadcast_arrays(_obj_f(x), _obj_f(y))
    out = np.empty(xa.shape, dtype=object)
    of = out.reshape(-1)
    for i, (a, b) in enumerate(zip(xa.reshape(-1), ya.reshape(-1))):
        if a.same(b):
            of[i] = a
        else:
            lt = bool(a < b)
            of[i] = (b if lt else a) if want_max else (a if lt else b)
    return ST(out)


reg("max")(lambda x, dim=None, keepdim=False, other=None, **k: _maxmin(x, dim, keepdim, True, other))
reg("min")(lambda x, dim=None, keepdim=False, other=None, **k: _maxmin(x, dim, keepdim, False, other))
reg("amax")(lambda x, dim=None, keepdim=False: _maxmin(x, dim, keepdim, True)[0] if dim is not None else _maxmin(x, None, keepdim, True))
reg("amin")(lambda x, dim=None, keepdim=False: _maxmin(x, dim, keepdim, False)[0] if dim is not None else _maxmin(x, None, keepdim, False))
reg("maximum")(lambda x, y, **k: _elementwise_maxmin(x, y, True))
reg("minimum")(lambda x, y, **k: _elementwise_maxmin(x, y, False))


@reg("argmax")
def _argmax(x, dim=None, keepdim=False):
    if dim is None:
        flat = list(_obj_f(x).reshape(-1))
        return torch.tensor(_argbest(flat, True))
    return _maxmin(x, dim, keepdim, True)[1]


@reg("argmin")
def _argmin(x, dim=None, keepdim=False):
    if dim is None:
        flat = list(_obj_f(x).reshape(-1))
        return torch.tensor(_argbest(flat, False))
    return _maxmin(x, dim, keepdim, False)[1]


@reg("clamp", "clip")
def _clamp(x, min=None, max=None, **k):
    r = ST(_obj_f(x))
    if min is not None:
        r = _elementwise_maxmin(r, min, True)
    if max is not None:
        r = _elementwise_maxmin(r, max, False)
    return r


reg("clamp_min")(lambda x, m: _clamp(x, min=m))
reg("clamp_max")(lambda x, m: _clamp(x, max=m))
HANDLERS[torch.nn.functional.relu] = lambda x, **k: _clamp(x, min=0)
reg("relu")(lambda x: _clamp(x, min=0))


# --- comparisons as torch functions
def _cmp_infinite(a, o, op):
    """comparison of (finite) symbolic reals with +-inf: decided without touching the normal form"""
    v = None
    if isinstance(o, float):
        v = o
    elif isinstance(o, torch.Tensor) and o.numel() == 1 and o.dtype.is_floating_point:
        v = float(o)
    if v is None or v == v and abs(v) != float("inf"):
        return None
    if v != v:
        res = op is np.not_equal
    elif v > 0:
        res = op in (np.less, np.less_equal, np.not_equal)
    else:
        res = op in (np.greater, np.greater_equal, np.not_equal)
    return torch.full(a.shape, bool(res), dtype=torch.bool)


def _cmpf(op):
    def h(x, y, **k):
        if isinstance(x, ST):
            sp = _cmp_infinite(x.a, y, op)
            if sp is not None:
                return sp
        xa, ya = _obj_f(x), _obj_f(y)
        return torch.from_numpy(_force_bool(op(xa, ya)))
    return h


reg("lt", "less", torch.Tensor.__lt__)(_cmpf(np.less))
reg("le", "less_equal", torch.Tensor.__le__)(_cmpf(np.less_equal))
reg("gt", "greater", torch.Tensor.__gt__)(_cmpf(np.greater))
reg("ge", "greater_equal", torch.Tensor.__ge__)(_cmpf(np.greater_equal))
reg("eq", torch.Tensor.__eq__)(_cmpf(np.equal))
reg("ne", "not_equal", torch.Tensor.__ne__)(_cmpf(np.not_equal))


@reg("isnan", "isinf", "isneginf", "isposinf")
def _isnan(x):
    return torch.zeros(_obj(x).shape, dtype=torch.bool)


@reg("isfinite")
def _isfinite(x):
    return torch.ones(_obj(x).shape, dtype=torch.bool)


@reg("isclose")
def _isclose(x, y, rtol=1e-05, atol=1e-08, equal_nan=False):
    """torch.isclose over the reals: |x - y| <= atol + rtol * |y| decided per element by forking (so that the band in which two
    DIFFERENT reals count as close is a path of its own, on which every claim must still hold)"""
    diff = x - y
    lhs = HANDLERS["abs"](diff) if isinstance(diff, ST) else torch.abs(diff)
    ay = HANDLERS["abs"](y) if isinstance(y, ST) else torch.abs(torch.as_tensor(y))
    return lhs <= ay * rtol + atol


@reg("allclose")
def _allclose(x, y, **k):
    xa, ya = np.broadcast_arrays(_obj_f(x), _obj_f(y))
    return all(nf.equal(a, b) for a, b in zip(xa.reshape(-1), ya.reshape(-1)))


@reg("equal")
def _equal(x, y):
    xa, ya = _obj_f(x), _obj_f(y)
    return xa.shape == ya.shape and all(nf.equal(a, b) for a, b in zip(xa.reshape(-1), ya.reshape(-1)))


# --- shape ops


def _shape_args(args):
    if len(args) == 1 and isinstance(args[0], (list, tuple, torch.Size)):
        return tuple(int(s) for s in args[0])
    return tuple(int(s) for s in args)


@reg("cat", "concat", "concatenate")
def _cat(tensors, dim=0, **k):
    if "axis" in k:
        dim = k["axis"]
    arrs = [_obj_f(t) for t in tensors]
    # torch.cat skips legacy empty 1-d tensors
    arrs2 = [a for a in arrs if not (a.ndim == 1 and a.shape[0] == 0)] or arrs[:1]
    return ST(np.concatenate(arrs2, axis=int(dim)))


@reg("stack")
def _stack(tensors, dim=0, **k):
    return ST(np.stack([_obj_f(t) for t in tensors], axis=int(dim)))


@reg("hstack")
def _hstack(tensors):
    return ST(np.hstack([_obj_f(t) for t in tensors]))


@reg("reshape", "view")
def _reshape(x, *shape):
    if len(shape) == 1 and isinstance(shape[0], torch.dtype):
        return x
    return ST(_obj_f(x).reshape(_shape_args(shape)))


@reg("view_as", "reshape_as")
def _view_as(x, y):
    return ST(_obj_f(x).reshape(tuple(y.shape)))


@reg("flatten")
def _flatten(x, start_dim=0, end_dim=-1):
    a = _obj_f(x)
    nd = a.ndim
    if nd == 0:
        return ST(a.reshape(1))
    s = start_dim % nd
    e = end_dim % nd
    new = a.shape[:s] + (int(np.prod(a.shape[s:e + 1])),) + a.shape[e + 1:]
    return ST(a.reshape(new))


@reg("unflatten")
def _unflatten(x, dim, sizes):
    a = _obj_f(x)
    d = dim % a.ndim
    return ST(a.reshape(a.shape[:d] + tuple(sizes) + a.shape[d + 1:]))


@reg("squeeze")
def _squeeze(x, dim=None):
    a = _obj_f(x)
    if dim is None:
        return ST(np.squeeze(a))
    if a.ndim == 0:
        return ST(a)
    if a.shape[dim] != 1:
        return ST(a)
    return ST(np.squeeze(a, axis=int(dim)))


@reg("unsqueeze")
def _unsqueeze(x, dim):
    a = _obj_f(x)
    d = dim if dim >= 0 else dim + a.ndim + 1
    return ST(np.expand_dims(a, d))


@reg("expand")
def _expand(x, *sizes):
    a = _obj_f(x)
    sizes = _shape_args(sizes)
    nd = len(sizes)
    ash = (1,) * (nd - a.ndim) + a.shape
    tgt = tuple(ash[i] if s == -1 else s for i, s in enumerate(sizes))
    return ST(np.array(np.broadcast_to(a.reshape(ash), tgt)))


@reg("expand_as")
def _expand_as(x, y):
    return _expand(x, *tuple(y.shape))


@reg("broadcast_to")
def _broadcast_to(x, shape):
    return _expand(x, *tuple(shape))


@reg("broadcast_tensors")
def _broadcast_tensors(*ts):
    if len(ts) == 1 and isinstance(ts[0], (list, tuple)):
        ts = ts[0]
    arrs = np.broadcast_arrays(*[_obj(t) for t in ts])
    return tuple(_wrap(np.array(a)) for a in arrs)


@reg("repeat")
def _repeat(x, *sizes):
    a = _obj_f(x)
    sizes = _shape_args(sizes)
    a = a.reshape((1,) * (len(sizes) - a.ndim) + a.shape)
    return ST(np.tile(a, sizes))


@reg("repeat_interleave")
def _repeat_interleave(x, repeats, dim=None, **k):
    a = _obj_f(x)
    r = _idx(repeats) if isinstance(repeats, torch.Tensor) else repeats
    return ST(np.repeat(a, r, axis=dim))


@reg("tile")
def _tile(x, dims):
    return ST(np.tile(_obj_f(x), tuple(dims)))


@reg("transpose", "swapaxes", "swapdims")
def _transpose(x, d0, d1):
    return ST(np.swapaxes(_obj_f(x), d0, d1))


@reg("t")
def _t(x):
    a = _obj_f(x)
    return ST(a.T if a.ndim == 2 else a)


@reg("permute")
def _permute(x, *dims):
    return ST(np.transpose(_obj_f(x), _shape_args(dims)))


@reg("movedim", "moveaxis")
def _movedim(x, s, d):
    return ST(np.moveaxis(_obj_f(x), s, d))


@reg("flip")
def _flip(x, dims):
    if isinstance(dims, int):
        dims = (dims,)
    return ST(np.flip(_obj_f(x), axis=tuple(dims)))


@reg("roll")
def _roll(x, shifts, dims=None):
    return ST(np.roll(_obj_f(x), shifts, axis=dims))


@reg("split")
def _split(x, split_size_or_sections, dim=0):
    a = _obj_f(x)
    n = a.shape[dim]
    if isinstance(split_size_or_sections, int):
        pts = list(range(split_size_or_sections, n, split_size_or_sections))
    else:
        pts = list(np.cumsum(split_size_or_sections)[:-1])
    return tuple(ST(p) for p in np.split(a, pts, axis=dim))


@reg("chunk")
def _chunk(x, chunks, dim=0):
    a = _obj_f(x)
    n = a.shape[dim]
    size = -(-n // chunks)
    return _split(x, size, dim)


@reg("tensor_split")
def _tensor_split(x, indices_or_sections, dim=0):
    a = _obj_f(x)
    if isinstance(indices_or_sections, torch.Tensor):
        ios = indices_or_sections.tolist()
    else:
        ios = indices_or_sections
    if isinstance(ios, int):
        return tuple(ST(p) for p in np.array_split(a, ios, axis=dim))
    return tuple(ST(p) for p in np.split(a, list(ios), axis=dim))


@reg("unbind")
def _unbind(x, dim=0):
    a = _obj_f(x)
    return tuple(ST(np.take(a, i, axis=dim)) for i in range(a.shape[dim]))


@reg("diagonal")
def _diagonal(x, offset=0, dim1=0, dim2=1):
    return ST(np.diagonal(_obj_f(x), offset=offset, axis1=dim1, axis2=dim2).copy())


@reg("diag_embed")
def _diag_embed(x, offset=0, dim1=-2, dim2=-1):
    a = _obj_f(x)
    n = a.shape[-1]
    out = np.empty(a.shape + (n,), dtype=object)
    out[...] = nf.ZERO
    for i in range(n):
        out[..., i, i] = a[..., i]
    return ST(out)


@reg("diag")
def _diag(x, diagonal=0):
    a = _obj_f(x)
    if a.ndim == 1:
        n = a.shape[0]
        out = np.empty((n, n), dtype=object)
        out[...] = nf.ZERO
        for i in range(n):
            out[i, i] = a[i]
        return ST(out)
    return ST(np.diagonal(a, offset=diagonal).copy())


def _tri(x, diagonal, lower):
    a = _obj_f(x).copy()
    n, m = a.shape[-2:]
    for i in range(n):
        for j in range(m):
            keep = (j - i <= diagonal) if lower else (j - i >= diagonal)
            if not keep:
                a[..., i, j] = nf.ZERO
    return ST(a)


reg("tril")(lambda x, diagonal=0: _tri(x, diagonal, True))
reg("triu")(lambda x, diagonal=0: _tri(x, diagonal, False))


@reg("trace")
def _trace(x):
    return _wrap(np.trace(_obj_f(x)))


@reg("gather")
def _gather(x, dim, index, **k):
    a = _obj_f(x)
    ix = _idx(index)
    # torch.gather allows index smaller than input on non-gather dims: emulate
    dim = dim % a.ndim
    sl = tuple(slice(0, ix.shape[d]) if d != dim else slice(None) for d in range(a.ndim))
    return ST(np.take_along_axis(a[sl], ix, axis=dim))


@reg("take_along_dim")
def _take_along_dim(x, indices, dim=None):
    a = _obj_f(x)
    ix = _idx(indices)
    if dim is None:
        return ST(a.reshape(-1)[ix.reshape(-1)])
    a2, ix2 = a, ix
    # broadcast non-dim axes
    dim = dim % a.ndim
    shp = [max(a.shape[d], ix.shape[d]) if d != dim else None for d in range(a.ndim)]
    a2 = np.broadcast_to(a, tuple(s if s is not None else a.shape[dim] for s in shp))
    ix2 = np.broadcast_to(ix, tuple(s if s is not None else ix.shape[dim] for s in shp))
    return ST(np.take_along_axis(a2, ix2, axis=dim))


def _scatter_impl(x, dim, index, src, add=False, inplace=False):
    a = _obj_f(x)
    out = a if inplace else a.copy()
    ix = _idx(index)
    if isinstance(src, (int, float)):
        s = np.empty(ix.shape, dtype=object)
        s[...] = nf.const(src)
    else:
        s = _obj_f(src)
    dim = dim % a.ndim
    for pos in np.ndindex(*ix.shape):
        tgt = list(pos)
        tgt[dim] = int(ix[pos])
        tgt = tuple(tgt)
        out[tgt] = (out[tgt] + s[pos]) if add else s[pos]
    return x if inplace else ST(out)


reg("scatter")(lambda x, dim, index, src=None, value=None, **k: _scatter_impl(x, dim, index, src if src is not None else value))
reg("scatter_")(lambda x, dim, index, src=None, value=None, **k: _scatter_impl(x, dim, index, src if src is not None else value, inplace=True))
reg("scatter_add")(lambda x, dim, index, src: _scatter_impl(x, dim, index, src, add=True))
reg("scatter_add_")(lambda x, dim, index, src: _scatter_impl(x, dim, index, src, add=True, inplace=True))


@reg("index_select")
def _index_select(x, dim, index):
    return ST(np.take(_obj_f(x), _idx(index), axis=dim))


@reg("index_add")
def _index_add(x, dim, index, source, alpha=1):
    a = _obj_f(x).copy()
    s = _obj_f(source)
    for k, i in enumerate(_idx(index)):
        sl = [slice(None)] * a.ndim
        sl[dim] = int(i)
        ss = [slice(None)] * a.ndim
        ss[dim] = k
        a[tuple(sl)] = a[tuple(sl)] + s[tuple(ss)] * alpha
    return ST(a)


@reg("index_put_")
def _index_put_(x, indices, values, accumulate=False):
    ix = tuple(_idx(i) for i in indices)
    v = _obj_f(values)
    if accumulate:
        np.add.at(x.a, ix, v)
    else:
        x.a[ix] = v
    return x


@reg("masked_select")
def _masked_select(x, mask):
    a = _obj_f(x)
    m = _idx(mask)
    a, m = np.broadcast_arrays(a, m)
    return ST(a[m.astype(bool)])


@reg("masked_fill")
def _masked_fill(x, mask, value):
    a = _obj_f(x).copy()
    m = np.broadcast_to(_idx(mask), a.shape).astype(bool)
    a[m] = nf.as_rf(value) if not isinstance(value, (ST, torch.Tensor)) else _obj_f(value)[()]
    return ST(a)


@reg("masked_fill_")
def _masked_fill_(x, mask, value):
    m = np.broadcast_to(_idx(mask), x.a.shape).astype(bool)
    x.a[m] = nf.as_rf(value) if not isinstance(value, (ST, torch.Tensor)) else _obj_f(value)[()]
    return x


@reg("where")
def _where(cond, x=None, y=None):
    if x is None:
        raise Undecided("torch.where(cond) single-argument form on symbolic data")
    c = _idx(cond) if isinstance(cond, torch.Tensor) else np.asarray(cond)
    xa, ya = _obj_f(x), _obj_f(y)
    c, xa, ya = np.broadcast_arrays(c, xa, ya)
    out = np.where(c.astype(bool), xa, ya)
    return ST(np.asarray(out, dtype=object))


@reg("zeros_like")
def _zeros_like(x, **k):
    return torch.zeros(_obj(x).shape, dtype=k.get("dtype") or torch.float64)


@reg("ones_like")
def _ones_like(x, **k):
    return torch.ones(_obj(x).shape, dtype=k.get("dtype") or torch.float64)


@reg("empty_like")
def _empty_like(x, **k):
    return torch.zeros(_obj(x).shape, dtype=k.get("dtype") or torch.float64)


@reg("full_like")
def _full_like(x, fill_value, **k):
    if isinstance(fill_value, (ST, RF)):
        out = np.empty(_obj(x).shape, dtype=object)
        out[...] = _obj_f(fill_value)[()]
        return ST(out)
    return torch.full(_obj(x).shape, fill_value, dtype=k.get("dtype") or torch.float64)


@reg("new_zeros")
def _new_zeros(x, *size, **k):
    return torch.zeros(_shape_args(size), dtype=k.get("dtype") or torch.float64)


@reg("new_ones")
def _new_ones(x, *size, **k):
    return torch.ones(_shape_args(size), dtype=k.get("dtype") or torch.float64)


@reg("new_full")
def _new_full(x, size, fill_value, **k):
    return torch.full(tuple(size), fill_value, dtype=k.get("dtype") or torch.float64)


@reg("new_tensor")
def _new_tensor(x, data, **k):
    return torch.tensor(data, dtype=k.get("dtype") or torch.float64)


@reg("atleast_1d")
def _atleast_1d(x):
    a = _obj_f(x)
    return ST(a.reshape(1) if a.ndim == 0 else a)


@reg("any", "all")
def _anyall(x, *a, **k):
    raise Undecided("any/all on a symbolic (non-boolean) tensor")


# --- sorting family (fork)


def _sort_last(a, descending):
    """a: object array; sort along last axis; returns values, indices"""
    outv = np.empty(a.shape, dtype=object)
    outi = np.empty(a.shape, dtype=np.int64)
    for ix in np.ndindex(*a.shape[:-1]):
        vals = list(a[ix])
        order = sym_argsort(vals, descending=descending)
        for k, j in enumerate(order):
            outv[ix + (k,)] = vals[j]
            outi[ix + (k,)] = j
    return outv, outi


@reg("sort")
def _sort(x, dim=-1, descending=False, stable=False):
    a = np.moveaxis(_obj_f(x), dim, -1)
    v, i = _sort_last(a, descending)
    return _MaxResult(ST(np.moveaxis(v, -1, dim)), torch.from_numpy(np.ascontiguousarray(np.moveaxis(i, -1, dim))))


@reg("argsort")
def _argsort(x, dim=-1, descending=False, stable=False):
    return _sort(x, dim, descending)[1]


@reg("msort")
def _msort(x):
    return _sort(x, 0)[0]


def _searchsorted(sorted_seq, values, right=False, **k):
    """count of elements of sorted_seq that are < v (left) or <= v (right)"""
    if k.get("side") == "right":
        right = True
    s = _obj_f(sorted_seq)
    scalar = not isinstance(values, (ST, torch.Tensor))
    v = _obj_f(values)
    if s.ndim == 1:
        out = np.empty(v.shape, dtype=np.int64)
        for ix in np.ndindex(*v.shape):
            out[ix] = _count_below(list(s), v[ix], right)
    else:
        assert s.shape[:-1] == v.shape[:-1], "searchsorted batch dims"
        out = np.empty(v.shape, dtype=np.int64)
        for ix in np.ndindex(*v.shape):
            out[ix] = _count_below(list(s[ix[:-1]]), v[ix], right)
    return torch.from_numpy(np.asarray(out))


def _all_const(a):
    return all(v.is_const() for v in a.reshape(-1))


def _unique(x, sorted=True, return_inverse=False, return_counts=False, dim=None):
    a = _obj_f(x)
    if not _all_const(a):
        raise Undecided("torch.unique on symbolic (non-constant) data")
    t = torch.tensor(np.vectorize(lambda r: float(r.const_value()))(a).astype(float), dtype=torch.float64) if a.size else torch.zeros(a.shape, dtype=torch.float64)
    r = torch.unique(t, sorted=sorted, return_inverse=return_inverse, return_counts=return_counts, dim=dim)
    if isinstance(r, tuple):
        return (ST(_obj_f(r[0])),) + tuple(r[1:])
    return ST(_obj_f(r))


HANDLERS[torch.unique] = _unique
HANDLERS[torch.functional.unique] = _unique
HANDLERS["unique"] = _unique
HANDLERS[torch.Tensor.unique] = _unique


def _count_below(seq, v, right):
    # sequence assumed sorted: linear scan with forking comparisons, stop at first failure
    n = 0
    for s in seq:
        c = (s <= v) if right else (s < v)
        if bool(c):
            n += 1
        else:
            break
    return n


reg("searchsorted")(_searchsorted)


@reg("bucketize")
def _bucketize(inp, boundaries, out_int32=False, right=False):
    return _searchsorted(boundaries, inp, right=right)


# --- linear algebra with assumed contracts (see contracts for eigh / matrix_exp)


@reg("inverse")
def _inverse(x):
    a = _obj_f(x)
    if a.ndim != 2:
        out = np.empty(a.shape, dtype=object)
        for ix in np.ndindex(*a.shape[:-2]):
            out[ix] = _inv2d(a[ix])
        return ST(out)
    return ST(_inv2d(a))


HANDLERS[torch.linalg.inv] = _inverse


def _inv2d(a):
    n = a.shape[0]
    # Gauss-Jordan with symbolic pivots (pivot non-vanishing is a recorded side condition)
    m = [[a[i, j] for j in range(n)] + [nf.ONE if i == j else nf.ZERO for j in range(n)] for i in range(n)]
    for c in range(n):
        p = None
        for r in range(c, n):
            if not m[r][c].is_zero():
                p = r
                break
        if p is None:
            raise Undecided("singular symbolic matrix")
        m[c], m[p] = m[p], m[c]
        inv = 1 / m[c][c]
        m[c] = [v * inv for v in m[c]]
        for r in range(n):
            if r != c and not m[r][c].is_zero():
                f = m[r][c]
                m[r] = [vr - f * vc for vr, vc in zip(m[r], m[c])]
    out = np.empty((n, n), dtype=object)
    for i in range(n):
        for j in range(n):
            out[i, j] = m[i][n + j]
    return out


def _chol2d(a):
    """lower Cholesky factor of a symbolic symmetric matrix (the pivots' positivity is the recorded side condition of rsqrt)"""
    n = a.shape[0]
    L = np.empty((n, n), dtype=object)
    for i in range(n):
        for j in range(n):
            L[i, j] = nf.ZERO
    for j in range(n):
        acc = a[j, j]
        for k in range(j):
            acc = acc - L[j, k] * L[j, k]
        L[j, j] = nf.rsqrt(acc)
        for i in range(j + 1, n):
            acc = a[i, j]
            for k in range(j):
                acc = acc - L[i, k] * L[j, k]
            L[i, j] = acc / L[j, j]
    return L


def _over_batch(a, f):
    if a.ndim == 2:
        return f(a)
    out = np.empty(a.shape, dtype=object)
    for ix in np.ndindex(*a.shape[:-2]):
        out[ix] = f(a[ix])
    return out


def _cholesky(x, upper=False, **k):
    a = _obj_f(x)
    return ST(_over_batch(a, (lambda m: _chol2d(m).T.copy()) if upper else _chol2d))


HANDLERS[torch.linalg.cholesky] = _cholesky
HANDLERS[torch.cholesky] = _cholesky
HANDLERS[torch.Tensor.cholesky] = _cholesky


def _matmul2d(a, b):
    n, m, r = a.shape[0], a.shape[1], b.shape[1]
    out = np.empty((n, r), dtype=object)
    for i in range(n):
        for j in range(r):
            acc = nf.ZERO
            for k in range(m):
                acc = acc + a[i, k] * b[k, j]
            out[i, j] = acc
    return out


def _cholesky_inverse(x, upper=False, **k):
    """torch.cholesky_inverse(u, upper): inverse of u u^T (lower) / u^T u (upper); only the named triangle of u is read"""
    a = _obj_f(x)

    def one(u):
        n = u.shape[0]
        t = np.empty((n, n), dtype=object)
        for i in range(n):
            for j in range(n):
                keep = (j >= i) if upper else (j <= i)
                t[i, j] = u[i, j] if keep else nf.ZERO
        full = _matmul2d(t.T.copy(), t) if upper else _matmul2d(t, t.T.copy())
        return _inv2d(full)
    return ST(_over_batch(a, one))


HANDLERS[torch.cholesky_inverse] = _cholesky_inverse
HANDLERS[torch.Tensor.cholesky_inverse] = _cholesky_inverse


@reg("det")
def _det(x):
    a = _obj_f(x)
    return _wrap(_det2d(a))


HANDLERS[torch.linalg.det] = _det


def _det2d(a):
    n = a.shape[0]
    if n == 1:
        return a[0, 0]
    if n == 2:
        return a[0, 0] * a[1, 1] - a[0, 1] * a[1, 0]
    s = nf.ZERO
    for j in range(n):
        if a[0, j].is_zero():
            continue
        minor = np.delete(np.delete(a, 0, axis=0), j, axis=1)
        s = s + a[0, j] * _det2d(minor) * (-1 if j % 2 else 1)
    return s


# --------------------------------------------------------------------------------------
# public helpers


def sym(name, shape=(), positive=False, nonneg=False):
    """fresh symbolic tensor with variables name[i,j,...]"""
    shape = tuple(shape)
    out = np.empty(shape, dtype=object)
    if shape == ():
        out[()] = nf.var(name, positive=positive, nonneg=nonneg)
    else:
        for ix in np.ndindex(*shape):
            out[ix] = nf.var("%s[%s]" % (name, ",".join(map(str, ix))), positive=positive, nonneg=nonneg)
    return ST(out)


def from_rfs(nested):
    return ST(np.array(nested, dtype=object))


def stensor(data, *a, **k):
    """replacement for torch.tensor in a module namespace: accepts nested lists with STs"""
    def has_sym(d):
        if isinstance(d, (ST, RF)):
            return True
        if isinstance(d, (list, tuple)):
            return any(has_sym(e) for e in d)
        return False
    if not has_sym(data):
        return torch.tensor(data, *a, **k)

    def conv(d):
        if isinstance(d, ST):
            return d.a
        if isinstance(d, RF):
            return _obj(d)
        if isinstance(d, torch.Tensor):
            return _obj_f(d)
        if isinstance(d, (list, tuple)):
            return np.stack([np.asarray(conv(e), dtype=object) for e in d]) if len(d) else np.empty((0,), dtype=object)
        return _obj(d)
    r = ST(np.asarray(conv(data), dtype=object))
    if SG_MODE[0]:
        r = ST(_map(_sg, r.a))
    return r


def to_float(st, env, fns=None):
    """evaluate ST numerically -> numpy float array"""
    a = st.a if isinstance(st, ST) else _obj_f(st)
    out = np.empty(a.shape, dtype=float)
    of = out.reshape(-1)
    for i, v in enumerate(a.reshape(-1)):
        of[i] = float(nf.evaluate(v, env, fns))
    return out
