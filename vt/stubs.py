"""Module-namespace contract stubs (DESIGN 2.1 'Factories that cannot dispatch').

`symbolic_factories(module, ...)` replaces the global name `torch` *inside the module under
test* by a proxy whose tensor factories return symbolic tensors of exact constants, so that
in-place stores of symbolic values into freshly created tensors (R = torch.zeros(..); R[..] = x)
work. Everything else is forwarded to the real torch. Restored on exit.
"""
import contextlib

import numpy as np
import torch

from . import nf
from .symtorch import ST, stensor, _obj_f


def _sym_of(t):
    return ST(_obj_f(t)) if isinstance(t, torch.Tensor) and t.dtype.is_floating_point else t


class TorchProxy:
    def __init__(self, real=torch, float_factories=True):
        object.__setattr__(self, "_real", real)
        object.__setattr__(self, "_over", {})
        if float_factories:
            for name in ("zeros", "ones", "full", "empty", "eye"):
                self._over[name] = self._wrap_factory(getattr(real, name))
            self._over["tensor"] = stensor
            self._over["as_tensor"] = stensor

    @staticmethod
    def _wrap_factory(f):
        def g(*a, **k):
            k = dict(k)
            dt = k.get("dtype")
            if isinstance(dt, torch.dtype) and not dt.is_floating_point:
                return f(*a, **k)
            k.pop("device", None)
            k["dtype"] = torch.float64
            return _sym_of(f(*a, **k))
        return g

    def __getattr__(self, name):
        o = self._over.get(name)
        if o is not None:
            return o
        return getattr(self._real, name)

    def override(self, name, value):
        self._over[name] = value


@contextlib.contextmanager
def symbolic_factories(*modules, extra=None, enabled=True):
    """within the block, `torch.zeros/ones/full/empty/eye/tensor` called from the given modules
    return symbolic tensors; `extra` = dict name -> replacement for other torch attributes"""
    if not enabled:
        yield None
        return
    saved = []
    proxy = TorchProxy()
    for k, v in (extra or {}).items():
        proxy.override(k, v)
    try:
        for m in modules:
            saved.append((m, m.__dict__.get("torch")))
            m.__dict__["torch"] = proxy
        yield proxy
    finally:
        for m, old in saved:
            if old is None:
                m.__dict__.pop("torch", None)
            else:
                m.__dict__["torch"] = old


@contextlib.contextmanager
def patched(obj, **names):
    """temporarily set attributes / module globals"""
    saved = {}
    missing = object()
    try:
        for k, v in names.items():
            d = obj.__dict__ if hasattr(obj, "__dict__") else None
            saved[k] = d.get(k, missing) if d is not None else getattr(obj, k, missing)
            setattr(obj, k, v) if not isinstance(obj, type(contextlib)) else obj.__dict__.__setitem__(k, v)
        yield
    finally:
        for k, v in saved.items():
            if v is missing:
                try:
                    delattr(obj, k)
                except Exception:
                    obj.__dict__.pop(k, None)
            else:
                if isinstance(obj, type(contextlib)):
                    obj.__dict__[k] = v
                else:
                    setattr(obj, k, v)
