"""Obligation runner: executes the obligations of one property in a process pool,
classifies results, writes evidence / replay files, prints VIOLATION / KNOWN-FINDING /
UNDECIDED lines and returns the exit code (0 held, 1 violation, 2 undecided, 3 crash).
"""
from __future__ import annotations

import hashlib
import importlib
import inspect
import json
import multiprocessing as mp
import os
import sys
import time
import traceback

VERIF = os.path.dirname(os.path.dirname(os.path.abspath(__file__)))
REPO = os.environ.get("VERIF_REPO", "/repo")


import contextlib


@contextlib.contextmanager
def default_dtype(dtype):
    """run a block with another torch default dtype.  The checks run with float64 as default (as `torchtree --dtype float64`, the CLI's
    default, does); obligations about tensors the code allocates WITHOUT a dtype re-run their scenario under torch's own default float32
    with float64 inputs (the environment of a library user who did not change the default)."""
    import torch
    old = torch.get_default_dtype()
    torch.set_default_dtype(dtype)
    try:
        yield
    finally:
        torch.set_default_dtype(old)


class BudgetExceeded(BaseException):
    """the obligation ran out of its time budget (undecided, never a verdict)"""


class Refuted(Exception):
    """obligation refuted by the verifier. witness: JSON-able; replay: dict describing how
    to re-run on the real code (module, function, args) or None"""

    def __init__(self, detail, witness=None, replay=None, confirmed=None):
        super().__init__(detail)
        self.detail = detail
        self.witness = witness
        self.replay = replay
        self.confirmed = confirmed  # True: replay on real code exhibited the failure


class Ob:
    """declared obligation"""

    def __init__(self, name, tag, fn, clause="", funcs=(), timeout=600):
        self.name = name
        self.tag = tag  # 'U' | 'V' | 'B'
        self.fn = fn
        self.clause = clause
        self.funcs = tuple(funcs)
        self.timeout = timeout


_OBS = []


def _run_one(i):
    ob = _OBS[i]
    t0 = time.time()
    from . import nf, smt, symtorch, cond
    cond.TIES[0] = "stable"
    nf.reset()
    smt.STATS.update(queries=0, seconds=0.0, unknown=0)
    symtorch.OPS_USED.clear()
    out = {"name": ob.name, "tag": ob.tag, "clause": ob.clause}
    try:
        import signal

        # VERIF_BUDGET_SCALE shortens / lengthens every obligation budget (used when evaluating seeded changes whose symbolic runs explode;
        # an exceeded budget is UNDECIDED, never a verdict)
        budget = max(10, int(ob.timeout * float(os.environ.get("VERIF_BUDGET_SCALE", "1"))))

        def _alarm(sig, frm):
            # a BaseException, re-raised every two seconds until it reaches this function: code under test and harnesses that catch
            # `Exception` (retry loops, "unsupported combination raises" clauses) must not be able to swallow the end of the budget
            raise BudgetExceeded("obligation budget %ds exceeded" % budget)
        signal.signal(signal.SIGALRM, _alarm)
        signal.setitimer(signal.ITIMER_REAL, budget, 2.0)
        try:
            r = ob.fn()
        finally:
            signal.setitimer(signal.ITIMER_REAL, 0)
        out["status"] = "discharged"
        if isinstance(r, dict):
            out.update(r)
    except Refuted as e:
        out.update(status="refuted", detail=e.detail, witness=e.witness, replay=e.replay, confirmed=e.confirmed)
    except BudgetExceeded as e:
        out.update(status="undecided", detail="TimeoutError: %s" % e)
    except Exception as e:  # Undecided, Timeout, bugs
        from .cond import Undecided
        import signal
        signal.setitimer(signal.ITIMER_REAL, 0)
        if isinstance(e, (Undecided, TimeoutError)):
            out.update(status="undecided", detail="%s: %s" % (type(e).__name__, e))
        else:
            out.update(status="error", detail=traceback.format_exc()[-3000:])
    out["seconds"] = round(time.time() - t0, 3)
    out["smt_queries"] = smt.STATS["queries"]
    out["smt_seconds"] = round(smt.STATS["seconds"], 3)
    out["torch_ops"] = sorted(symtorch.OPS_USED)
    return out


def source_hash(qualname):
    """sha256 of the current source text of module:object in /repo"""
    try:
        mod, _, obj = qualname.partition(":")
        m = importlib.import_module(mod)
        o = m
        for part in obj.split("."):
            o = getattr(o, part)
        if isinstance(o, property):
            o = o.fget
        src = inspect.getsource(o)
        return hashlib.sha256(src.encode()).hexdigest()[:16]
    except Exception as e:
        return "unavailable(%s)" % type(e).__name__


def load_known():
    p = os.path.join(VERIF, "known_findings.json")
    if not os.path.exists(p):
        return []
    with open(p) as f:
        return json.load(f)["findings"]


def run_property(pid, tier, seed, obligations, meta, jobs=None):
    """obligations: list[Ob]; meta: dict(level, explanation, trusted_base, assumptions, checker_cmd, bound, rule)"""
    global _OBS
    t0 = time.time()
    _OBS = obligations
    jobs = jobs or int(os.environ.get("VERIF_JOBS", "14"))
    results = []
    if not obligations:
        print("ERROR property=%s zero obligations generated (vacuous)" % pid)
        return 3
    if jobs > 1 and len(obligations) > 1:
        ctx = mp.get_context("fork")
        with ctx.Pool(min(jobs, len(obligations))) as pool:
            results = pool.map(_run_one, range(len(obligations)), chunksize=1)
    else:
        results = [_run_one(i) for i in range(len(obligations))]

    known = [k for k in load_known() if k.get("property") == pid and k.get("status") == "open"]
    os.makedirs(os.path.join(VERIF, "evidence", "replays"), exist_ok=True)
    violations = []
    known_hits = []
    undecided = []
    errors = []
    for r in results:
        if r["status"] == "refuted":
            # exact obligation names only: a finding never hides another obligation of the same group
            k = next((k for k in known if k.get("obligation") == r["name"] or r["name"] in k.get("obligations", ())), None)
            if k is not None:
                known_hits.append((k, r))
            else:
                violations.append(r)
        elif r["status"] == "undecided":
            undecided.append(r)
        elif r["status"] == "error":
            errors.append(r)

    seen_k = set()
    for k, r in known_hits:
        if id(k) in seen_k:
            continue
        seen_k.add(id(k))
        n_same = sum(1 for kk, _ in known_hits if kk is k)
        print("KNOWN-FINDING: property=%s %s [%s%s]" % (pid, k["what"], r["name"], (" and %d more obligations of the same call site" % (n_same - 1)) if n_same > 1 else ""))
    # a listed finding whose obligation is now discharged: report (informational)
    names_refuted = {r["name"] for r in results if r["status"] == "refuted"}
    for k in known:
        if k.get("obligation") and k["obligation"] not in names_refuted:
            present = any(r["name"] == k["obligation"] for r in results)
            if present:
                print("NOTE property=%s known finding no longer reproduces: %s" % (pid, k["obligation"]))
    for r in violations:
        safe = r["name"].replace("/", "_").replace(" ", "")
        path = os.path.join(VERIF, "evidence", "replays", "%s-%s.json" % (pid, safe))
        with open(path, "w") as f:
            json.dump({"property": pid, "obligation": r["name"], "clause": r.get("clause"),
                       "verifier_output": r.get("detail"), "witness": r.get("witness"),
                       "replay": r.get("replay"), "confirmed_on_real_code": r.get("confirmed"),
                       "tier": tier, "seed": seed}, f, indent=1, default=str)
        suffix = "" if r.get("confirmed") else " no-failing-input-found"
        print("VIOLATION property=%s replay=%s obligation=%s%s" % (pid, path, r["name"], suffix))
    for r in undecided:
        print("UNDECIDED property=%s obligation=%s reason=%s" % (pid, r["name"], (r.get("detail") or "")[:300]))
    for r in errors:
        print("ERROR property=%s obligation=%s\n%s" % (pid, r["name"], r.get("detail")))

    n = len(results)
    disc = sum(1 for r in results if r["status"] == "discharged")
    tags = {}
    for r in results:
        t = tags.setdefault(r["tag"], {"obligations": 0, "discharged": 0})
        t["obligations"] += 1
        t["discharged"] += r["status"] == "discharged"
    funcs = sorted({f for ob in obligations for f in ob.funcs})
    ops = sorted({o for r in results for o in r.get("torch_ops", [])})
    samples = []
    for r in results[:: max(1, n // 8)][:10]:
        samples.append({k: r.get(k) for k in ("name", "tag", "clause", "status", "backend", "statement", "seconds") if r.get(k) is not None})
    cov = {
        "obligations": n,
        "discharged": disc,
        "known_findings_reproduced": len(known_hits),
        "refuted_new": len(violations),
        "undecided": len(undecided),
        "checker_cmd": meta.get("checker_cmd", "./check %s --tier %s" % (pid, tier)),
        "trusted_base": meta.get("trusted_base", []) + ["torch entry points given their mathematical meaning by vt.symtorch: " + ", ".join(ops)] if ops else meta.get("trusted_base", []),
        "explanation": meta.get("explanation", ""),
        "per_tag": tags,
        "bound": meta.get("bound", ""),
        "exhaustive": bool(meta.get("exhaustive", False)),
        "functions_under_contract": {f: source_hash(f) for f in funcs},
        "samples": samples,
        "rule": meta.get("rule", "one case = one named obligation (contract clause x shape x path family); non-trivial = generated at least one identity or SMT query"),
        "evaluations": n,
        "distinct_nontrivial": sum(1 for r in results if r["status"] in ("discharged", "refuted") and not r.get("trivial")),
        "solver_seconds": round(sum(r.get("smt_seconds", 0) for r in results), 2),
        "smt_queries": sum(r.get("smt_queries", 0) for r in results),
        "obligation_results": [{k: r.get(k) for k in ("name", "tag", "status", "backend", "seconds", "paths", "identities", "smt_queries", "raised", "cases") if r.get(k) is not None} for r in results],
    }
    ev = {
        "property_id": pid,
        "tier": tier,
        "seed": seed,
        "level": meta.get("level", "other"),
        "coverage": cov,
        "assumptions": meta.get("assumptions", []),
        "wall_s": round(time.time() - t0, 2),
        "violations": len(violations),
    }
    with open(os.path.join(VERIF, "evidence", "%s.json" % pid), "w") as f:
        json.dump(ev, f, indent=1, default=str)
    print("SUMMARY property=%s tier=%s obligations=%d discharged=%d known=%d violations=%d undecided=%d errors=%d wall=%.1fs"
          % (pid, tier, n, disc, len(known_hits), len(violations), len(undecided), len(errors), time.time() - t0))
    # a refuted obligation stands on its own witness: it is reported (exit 1) even when other obligations of the run could
    # not be evaluated; without one, a checker error (3) outranks an undecided obligation (2)
    if violations:
        return 1
    if errors:
        return 3
    if undecided:
        return 2
    return 0
