"""Scenario harness.

A *scenario* is a Python function `scn(mk)` that (1) asks `mk` for its inputs,
(2) calls the REAL repository code on them, (3) returns a list of claims
(the postconditions of the contract, written from the property statement).
The same function runs in two modes:

* symbolic (`MkSym`): inputs are `ST`s of fresh variables with a declared domain; the
  run forks on data-dependent branches; each claim is proved for every feasible path
  by the exact normal form (identities) or z3 (inequalities under the domain + path).
* concrete (`MkNum`): inputs are real torch tensors at a point of the domain; the claims
  are evaluated numerically.  Used for (a) the concretisation cross-check that guards
  the symbolic shim, (b) confirming a refutation on the real code (replay).

Claims:  ("eq", name, lhs, rhs) | ("ge0", name, x) | ("gt0", name, x) |
         ("zero", name, x)  (syntactic zero)  | ("true", name, bool) | ("must", name, bool): discrete fact, a false one in the concrete run refutes
lhs/rhs/x may be scalars (RF / float) or tensors (ST / torch.Tensor) of equal shape.
"""
from __future__ import annotations

import math
import os
import random
from fractions import Fraction as Q

import numpy as np
import torch

from . import nf, smt
from .cond import Cond, Explorer, Infeasible, Undecided
from .runner import Refuted
from .symtorch import ST, sym, _obj_f


class Decl:
    def __init__(self, name, shape, lo, hi, kind="real", lo_incl=False):
        self.name, self.shape, self.lo, self.hi, self.kind, self.lo_incl = name, tuple(shape), lo, hi, kind, bool(lo_incl)


class MkBase:
    symbolic = False

    def __init__(self):
        self.decls = []
        self.requires = []


class MkSym(MkBase):
    symbolic = True

    def real(self, name, shape=(), lo=None, hi=None, lo_incl=False):
        """symbolic tensor with every element in (lo, hi) (lo_incl: [lo, hi))"""
        self.decls.append(Decl(name, shape, lo, hi, lo_incl=lo_incl))
        positive = lo is not None and lo >= 0 and not (lo_incl and lo == 0)
        nonneg = lo is not None and lo >= 0
        t = sym(name, shape, positive=positive, nonneg=nonneg)
        from .cond import assume
        for v in t.a.reshape(-1):
            cs = []
            if lo is not None and not (lo == 0 and (positive or nonneg)):
                cs.append(Cond.make(nf.const(lo) - v, "<=" if lo_incl else "<"))
            if hi is not None:
                cs.append(Cond.make(v - nf.const(hi), "<"))
            for c in cs:
                self.requires.append(c)
                assume(c)
        return t

    def require(self, c):
        """extra precondition (Cond or bool)"""
        if isinstance(c, torch.Tensor):
            c = bool(c.all())
        if c is True:
            return
        if c is False:
            raise Infeasible("precondition constant False")
        self.requires.append(c)
        from .cond import assume
        assume(c)

    def const(self, value):
        return value

    def lift(self, t):
        """concrete tensor -> symbolic tensor of exact (rationalised) constants, so that
        spec-side arithmetic on constants is exact"""
        return t if isinstance(t, ST) else ST(t)

    def unit(self, name, shape=()):
        """every element in (0,1), parametrised as u/(1+u) with u>0 (surjective onto (0,1)):
        sign claims about polynomials in such inputs become syntactic"""
        u = self.real(name + "~u", shape, lo=0)
        return u / (1.0 + u)

    def above(self, name, shape, base):
        """every element > base, parametrised as base + s with s>0"""
        return self.real(name + "~s", shape, lo=0) + base


class MkNum(MkBase):
    """concrete mode: values from env (name[i,j] -> float)"""

    def __init__(self, env, dtype=torch.float64):
        super().__init__()
        self.env = env
        self.dtype = dtype
        self.ok = True

    def real(self, name, shape=(), lo=None, hi=None, lo_incl=False):
        shape = tuple(shape)
        self.decls.append(Decl(name, shape, lo, hi, lo_incl=lo_incl))
        if shape == ():
            return torch.tensor(float(self.env[name]), dtype=self.dtype)
        out = torch.empty(shape, dtype=self.dtype)
        for ix in np.ndindex(*shape):
            out[ix] = float(self.env["%s[%s]" % (name, ",".join(map(str, ix)))])
        return out

    def require(self, c):
        if isinstance(c, torch.Tensor):
            c = bool(c.all())
        if not c:
            self.ok = False
            raise Infeasible("precondition false at concrete point")

    def const(self, value):
        return value

    def lift(self, t):
        return t

    def unit(self, name, shape=()):
        u = self.real(name + "~u", shape, lo=0)
        return u / (1.0 + u)

    def above(self, name, shape, base):
        return self.real(name + "~s", shape, lo=0) + base


# --------------------------------------------------------------------------------------


def _flat(x):
    """claim operand -> list of RF (symbolic) or list of float (concrete)"""
    if isinstance(x, ST):
        return list(x.a.reshape(-1)), tuple(x.a.shape)
    if isinstance(x, torch.Tensor):
        return [float(v) for v in x.detach().double().reshape(-1)], tuple(x.shape)
    if isinstance(x, nf.RF):
        return [x], ()
    if isinstance(x, (int, float, Q)):
        return [x], ()
    if isinstance(x, np.ndarray):
        return list(x.reshape(-1)), tuple(x.shape)
    if isinstance(x, (list, tuple)):
        out = []
        for e in x:
            out.extend(_flat(e)[0])
        return out, (len(out),)
    raise TypeError("claim operand %r" % type(x))


def sample_env(decls, rng, spread=1.0):
    env = {}
    for d in decls:
        names = [d.name] if d.shape == () else ["%s[%s]" % (d.name, ",".join(map(str, ix))) for ix in np.ndindex(*d.shape)]
        for n in names:
            lo, hi = d.lo, d.hi
            if lo is not None and hi is not None:
                v = lo + (hi - lo) * rng.uniform(0.02, 0.98)
            elif lo is not None:
                v = lo + math.exp(rng.uniform(-2.0, 2.0) * spread)
            elif hi is not None:
                v = hi - math.exp(rng.uniform(-2.0, 2.0) * spread)
            else:
                v = rng.uniform(-2.0, 2.0) * spread
            env[n] = round(v, 6) if spread <= 2.0 else float("%.12g" % v)
    return env


def _conds_hold(conds, env, fns=None):
    for c in conds:
        if c is True:
            continue
        if c is False:
            return False
        v = nf.evaluate(c.expr, env, fns)
        ok = {"<": v < 0, "<=": v <= 0, "==": abs(v) < 1e-12, "!=": v != 0}[c.rel]
        if not ok:
            return False
    return True


def find_point(decls, conds, rng, tries=300, fns=None, wide=True):
    for k in range(tries):
        env = sample_env(decls, rng, spread=1.0 if k < tries // 2 else 2.0)
        try:
            if _conds_hold(conds, env, fns):
                return env
        except (ZeroDivisionError, ValueError, OverflowError):
            continue
    env = _smt_point(decls, conds, rng, fns)
    if env is not None:
        return env
    # regions only reached far from the unit box (a clamp, an epsilon, a tolerance: cumulative sums below log(eps), rates of 1e-8, ...):
    # the same rejection sampling at wider and wider scales - for the search of a REFUTING point only (wide=True); the concretisation
    # cross-check stays in the moderate range, where float64 evaluates the real code to the accuracy the comparison assumes
    for spread in ((4.0, 10.0, 20.0) if wide else ()):
        for k in range(tries // 2):
            env = sample_env(decls, rng, spread=spread)
            try:
                if _conds_hold(conds, env, fns):
                    return env
            except (ZeroDivisionError, ValueError, OverflowError):
                continue
    return None


def _smt_point(decls, conds, rng, fns):
    """rejection sampling failed (thin domain): ask z3 for a model of the conditions that only
    mention plain variables, randomised by pinning a random subset of variables first."""
    import z3
    conds = [c for c in conds if c is not True]
    plain = []
    for c in conds:
        if all(nf.ATOMS.atoms[i][0] == "var" for i in nf.all_atoms(c.expr)):
            plain.append(c)
    base = sample_env(decls, rng)
    names = list(base)
    for attempt in range(6):
        tr = smt.Translator()
        s = z3.Solver()
        s.set("timeout", 5000)
        for c in plain:
            s.add(tr.cond(c))
        # domain bounds for every declared variable
        ids = {}
        for n in names:
            ids[n] = tr.atom(nf.ATOMS.get("var", n))
        for d in decls:
            for n in ([d.name] if d.shape == () else ["%s[%s]" % (d.name, ",".join(map(str, ix))) for ix in np.ndindex(*d.shape)]):
                if d.lo is not None:
                    s.add(ids[n] > d.lo)
                if d.hi is not None:
                    s.add(ids[n] < d.hi)
        for a in tr.axioms:
            s.add(a)
        # pin a shrinking random subset to sampled values
        pin = rng.sample(names, max(0, len(names) * (4 - attempt) // 6)) if attempt < 5 else []
        # variables no condition mentions keep their sampled value (z3's model completion would give them 0, which is a
        # measure-zero corner - e.g. a growth rate of exactly 0 - and not a generic point of the domain)
        mentioned = set()
        for c in plain:
            for i in nf.all_atoms(c.expr):
                mentioned.add(nf.ATOMS.atoms[i][1])
        pin = list(dict.fromkeys(pin + [n for n in names if n not in mentioned]))
        for n in pin:
            q = Q(base[n]).limit_denominator(10 ** 6)
            s.add(ids[n] == z3.Q(q.numerator, q.denominator))
        if s.check() == z3.sat:
            m = s.model()
            env = {}
            for n in names:
                v = smt._z3val(m.eval(ids[n], model_completion=True))
                env[n] = float(v) if v is not None else base[n]
            try:
                if _conds_hold(conds, env, fns):
                    return env
            except (ZeroDivisionError, ValueError, OverflowError):
                pass
        base = sample_env(decls, rng)
    return None


def _close(a, b, rtol=1e-9, atol=1e-11):
    if a != a or b != b:
        return False
    return abs(a - b) <= atol + rtol * max(abs(a), abs(b))


class Result(dict):
    pass


def _tiny_constant(d0):
    """residual without variables (rational constants, log/e/root constants only) below 1e-12"""
    if d0.is_const():
        return abs(d0.const_value()) <= Q(1, 10 ** 12)
    if all(nf.ATOMS.atoms[i][0] in ("logc", "e", "cpow") for i in nf.all_atoms(d0)):
        try:
            return abs(float(nf.evaluate(d0, {}))) <= 1e-12
        except Exception:
            return False
    return False


def prove_scenario(scn, *, seed=0, crosscheck=2, max_paths=4000, timeout_ms=10000, fns=None,
                   replay=None, rtol=1e-9, expect_paths_min=1, smt_for_ineq=True):
    """Run scn symbolically over all paths, prove every claim, cross-check the shim
    numerically against a concrete run of the same scenario.  Returns stats dict or
    raises Refuted / Undecided."""
    rng = random.Random(seed * 7919 + 13)
    holder = {}

    def run_sym():
        mk = MkSym()
        holder["mk"] = mk
        try:
            claims = scn(mk)
        except (Undecided, Infeasible, Refuted, TimeoutError):
            raise
        except Exception as e:
            # the code under contract raised on symbolic input. If it also raises on a concrete
            # point of the domain it is a violation ("raises within its precondition"); if not,
            # the symbolic shim is at fault (checker error).
            import traceback
            tb = traceback.format_exc()
            from .cond import current_path
            conds = [c for c in current_path()]
            for _ in range(4):
                env = find_point(mk.decls, conds, rng, fns=fns)
                if env is None:
                    break
                try:
                    scn(MkNum(env))
                except Infeasible:
                    continue
                except Exception as e2:
                    if not _raised_in_repo(e2):
                        # no frame of the code under contract on the stack: the contract / harness itself is broken -> checker error, never a verdict
                        raise RuntimeError("the scenario (not the code under contract) raised %s: %s\n%s" % (type(e2).__name__, e2, tb))
                    raise Refuted("the code under contract raises inside its precondition: %s: %s" % (type(e2).__name__, e2),
                                  witness={"env": env, "error": "%s: %s" % (type(e2).__name__, e2)},
                                  replay=_with_env(replay, env), confirmed=True)
                else:
                    # no exception concretely: the symbolic error may stand for a non-finite value
                    # (log 0, division by 0) that torch returns silently
                    try:
                        bad = [c[1] for c in scn(MkNum(env)) if not _num_claim_holds(c, rtol)]
                    except Exception:
                        bad = []
                    if bad:
                        raise Refuted("symbolic evaluation is undefined (%s: %s) and the real code returns values violating %s at %s"
                                      % (type(e).__name__, e, bad, env), witness={"env": env, "claims": bad},
                                      replay=_with_env(replay, env), confirmed=True)
                break
            raise RuntimeError("symbolic run raised but the concrete run does not (shim fault?):\n" + tb)
        return claims, mk

    ex = Explorer(max_paths=max_paths, timeout_ms=timeout_ms)
    results = ex.run(run_sym)
    if len(results) < expect_paths_min:
        raise Undecided("scenario produced %d feasible paths (< %d): vacuous" % (len(results), expect_paths_min))
    n_ident = 0
    n_smt = 0
    const_slack = [0]
    raised_notes = []
    statements = []
    sym_paths = []
    for (claims, mk), path in results:
        assumptions = list(path)
        for c in mk.requires:
            if c is not True and all(c.key() != p.key() for p in assumptions):
                assumptions.append(c)
        sym_paths.append((claims, mk, assumptions))
        if not claims:
            raise Undecided("scenario returned no claims (vacuous)")
        for cl in claims:
            kind, name = cl[0], cl[1]
            if kind == "eq":
                L, shl = _flat(cl[2])
                R, shr = _flat(cl[3])
                if shl != shr and len(L) != len(R):
                    raise Refuted("claim %s: shape mismatch %s vs %s" % (name, shl, shr),
                                  witness={"claim": name, "lhs_shape": shl, "rhs_shape": shr}, replay=replay,
                                  confirmed=_confirm(scn, mk.decls, assumptions, rng, name, fns, rtol))
                for k, (a, b) in enumerate(zip(L, R)):
                    a, b = nf.as_rf(a), nf.as_rf(b)
                    n_ident += 1
                    if nf.equal(a, b):
                        continue
                    d0 = nf.simplify(a - b)
                    if _tiny_constant(d0):
                        # residual is a pure constant at rounding level: float constant folding inside the code
                        # (e.g. math.lgamma / math.log evaluated in a different order) - accepted, counted
                        const_slack[0] += 1
                        continue
                    _refute_or_undecided(scn, mk, assumptions, rng, name, k, a, b, fns, replay, rtol)
                if len(statements) < 3:
                    statements.append("%s: %s ≡ %s" % (name, nf.show(nf.as_rf(L[0]), 6), nf.show(nf.as_rf(R[0]), 6)))
            elif kind in ("ge0", "gt0"):
                X, _ = _flat(cl[2])
                for k, x in enumerate(X):
                    x = nf.simplify(nf.as_rf(x))
                    goal = Cond.make(-x, "<=" if kind == "ge0" else "<")
                    if goal is True:
                        n_ident += 1
                        continue
                    if goal is False:
                        raise Refuted("claim %s[%d]: %s is not %s" % (name, k, nf.show(x, 8), kind),
                                      witness={"claim": name}, replay=replay,
                                      confirmed=_confirm(scn, mk.decls, assumptions, rng, name, fns, rtol))
                    n_smt += 1
                    r = smt.implies(assumptions, goal, timeout_ms)
                    if r is True:
                        continue
                    if r is False:
                        env = find_point(mk.decls, assumptions + [goal.negate()], rng, fns=fns)
                        if env is None and _abstracted(assumptions + [goal]):
                            raise Undecided("claim %s[%d]: the solver's counter-model lives on the abstraction of exp/log/function atoms and no real point of the "
                                            "domain violates %s %s (incomplete, not a refutation)" % (name, k, nf.show(x, 6), kind))
                        raise Refuted("claim %s[%d]: %s %s fails under the precondition (z3 sat)" % (name, k, nf.show(x, 8), kind),
                                      witness={"claim": name, "env": env}, replay=_with_env(replay, env),
                                      confirmed=_confirm(scn, mk.decls, assumptions + [goal.negate()], rng, name, fns, rtol, env))
                    raise Undecided("claim %s[%d]: solver unknown on %s" % (name, k, goal))
            elif kind == "zero":
                X, _ = _flat(cl[2])
                for k, x in enumerate(X):
                    n_ident += 1
                    if not nf.is_zero(nf.as_rf(x)):
                        raise Refuted("claim %s[%d]: %s is not the zero term" % (name, k, nf.show(nf.as_rf(x), 8)),
                                      witness={"claim": name}, replay=replay,
                                      confirmed=_confirm(scn, mk.decls, assumptions, rng, name, fns, rtol))
            elif kind in ("true", "must"):
                n_ident += 1
                v = cl[2]
                if name == "unsupported_combination_raises":
                    raised_notes.append(str(cl[3])[:160] if len(cl) > 3 else "raised")
                if isinstance(v, torch.Tensor):
                    v = bool(v.all())
                if isinstance(v, Cond):
                    r = smt.implies(assumptions, v, timeout_ms)
                    n_smt += 1
                    if r is None:
                        raise Undecided("claim %s: solver unknown" % name)
                    if r is False and _abstracted(assumptions + [v]) and find_point(mk.decls, assumptions + [v.negate()], rng, fns=fns) is None:
                        raise Undecided("claim %s: the solver's counter-model lives on the abstraction of exp/log/function atoms and no real point of the "
                                        "domain violates the claim (incomplete, not a refutation)" % name)
                    v = r
                if not v:
                    raise Refuted("claim %s is false%s" % (name, (": " + str(cl[3])) if len(cl) > 3 else ""),
                                  witness={"claim": name, "info": str(cl[3]) if len(cl) > 3 else None}, replay=replay,
                                  confirmed=_confirm(scn, mk.decls, assumptions, rng, name, fns, rtol))
            else:
                raise ValueError("unknown claim kind %s" % kind)

    # concretisation cross-check (guards the shim and the stubs)
    xchecks = 0
    for _ in range(crosscheck):
        # pick a path and a point on it
        claims, mk, assumptions = sym_paths[rng.randrange(len(sym_paths))]
        env = find_point(mk.decls, assumptions, rng, fns=fns, wide=False)
        if env is None:
            continue
        try:
            num_claims = scn(MkNum(env))
        except Infeasible:
            continue
        except (ZeroDivisionError, OverflowError) as e_:
            if _raised_in_repo(e_):
                raise
            continue   # Python-float overflow/underflow of the ORACLE at an extreme sample point (torch never raises these): no cross-check there
        by_name = {c[1]: c for c in num_claims}
        # a discrete fact ("must" claim: like "true", but declared free of rounding by the contract) that is false in the concrete run is a failure of the real code at that input (no rounding involved),
        # whatever the symbolic run said (e.g. autograd refusing to differentiate: invisible to the shim)
        for cn in num_claims:
            if cn[0] == "must" and not _num_claim_holds(cn, rtol):
                raise Refuted("claim %s is false on the real code at %s%s" % (cn[1], env, (": " + str(cn[3])) if len(cn) > 3 else ""),
                              witness={"claim": cn[1], "env": env}, replay=_with_env(replay, env), confirmed=True)
        for cs in claims:
            cn = by_name.get(cs[1])
            if cn is None:
                continue
            if cs[0] == "eq" and cn[0] == "eq":
                Ls, _ = _flat(cs[2])
                Ln, _ = _flat(cn[2])
                Rn, _ = _flat(cn[3])
                if len(Ls) != len(Ln):
                    raise RuntimeError("cross-check %s: symbolic shape differs from torch shape" % cs[1])
                for a, b in zip(Ls, Ln):
                    try:
                        va = float(nf.evaluate(nf.as_rf(a), env, fns))
                        if va != va or abs(va) == float("inf"):
                            raise OverflowError("non-finite float evaluation of the term")   # inf * 0 of two intermediate exps
                    except (OverflowError, ZeroDivisionError, ValueError):
                        # Python-float overflow of an intermediate exp at an extreme sample point: redo in extended precision
                        import mpmath
                        try:
                            with mpmath.workdps(60):
                                va = float(nf.evaluate(nf.as_rf(a), env, fns, mp=mpmath))
                        except Exception:
                            continue
                    if not _close(va, float(b), 1e-7, 1e-9):
                        raise RuntimeError("cross-check %s: symbolic shim disagrees with torch at %s: %r vs %r" % (cs[1], env, va, b))
                for a, b in zip(Ln, Rn):
                    if not _close(float(a), float(b), 1e-7, 1e-9):
                        raise RuntimeError("cross-check %s: claim proved symbolically but numerically false at %s: %r vs %r" % (cs[1], env, a, b))
                xchecks += 1
    n_boundary = _boundary_probe(scn, sym_paths, rng, fns, rtol, replay)
    return Result(backend="nf" + ("+z3" if n_smt else ""), boundary_points=n_boundary, paths=len(results), paths_outside_domain=ex.infeasible_paths, identities=n_ident,
                  smt_goals=n_smt, crosschecks=xchecks, statement="; ".join(statements)[:600],
                  side_conditions=len(nf.SIDE), constant_residuals_below_1e_12=const_slack[0],
                  **({"raised": raised_notes[0]} if raised_notes else {}))


def _boundary_probe(scn, sym_paths, rng, fns, rtol, replay):
    """Closed ends of the declared domain.  The symbolic proof is about generic points: an input declared on [lo, hi) takes the value lo on a set
    of measure zero, where an expression such as 0/p degenerates although the property includes that point.  For every input declared with a
    CLOSED lower end the real code is run concretely with one element of that input exactly at the end, the other inputs at a point of
    the domain: the value must be finite and agree with the specification (where the specification itself is finite there).
    Returns the number of boundary points evaluated."""
    n = 0
    seen = set()
    for claims, mk, assumptions in sym_paths[:4]:
        closed = [d for d in mk.decls if d.lo_incl and d.lo is not None and d.name not in seen]
        if not closed:
            continue
        base = find_point(mk.decls, assumptions, rng, fns=fns, wide=False)
        if base is None:
            continue
        probes = []
        for d in closed:
            seen.add(d.name)
            keys = [d.name] if d.shape == () else ["%s[%s]" % (d.name, ",".join(map(str, ix))) for ix in np.ndindex(*d.shape)]
            # one element at a time (a whole tensor at its closed end - e.g. an all-zero partial-likelihood vector - is usually outside
            # the property's domain although each single entry may be at the end)
            for k in (keys if len(keys) <= 3 else rng.sample(keys, 3)):
                probes.append((d, k))
        for d, k in probes:
            env = dict(base)
            env[k] = float(d.lo)
            try:
                num = scn(MkNum(env))
            except Infeasible:
                continue
            except (ZeroDivisionError, OverflowError, ValueError) as e:
                if _raised_in_repo(e):
                    raise Refuted("at the closed end %s = %s of its domain the code under contract raises %s: %s" % (k, d.lo, type(e).__name__, e),
                                  witness={"env": env, "boundary": d.name}, replay=_with_env(replay, env), confirmed=True)
                continue      # the oracle is undefined at the boundary
            except Exception as e:
                if _raised_in_repo(e):
                    raise Refuted("at the closed end %s = %s of its domain the code under contract raises %s: %s" % (k, d.lo, type(e).__name__, e),
                                  witness={"env": env, "boundary": d.name}, replay=_with_env(replay, env), confirmed=True)
                continue
            n += 1
            for cl in num:
                if cl[0] != "eq":
                    continue
                try:
                    L, _ = _flat(cl[2])
                    R, _ = _flat(cl[3])
                except Exception:
                    continue
                if len(L) != len(R):
                    continue
                for a, b in zip(L, R):
                    a, b = float(a), float(b)
                    spec_ok = b == b and abs(b) != float("inf")
                    if not spec_ok:
                        continue          # the specification itself is not finite at the boundary: nothing required
                    if a != a or abs(a) == float("inf") or not _close(a, b, max(rtol, 1e-7), 1e-9):
                        raise Refuted("at the closed end %s = %s of its domain claim %s fails on the real code: value %r, specification %r (the symbolic proof "
                                      "covers generic points only)" % (k, d.lo, cl[1], a, b),
                                      witness={"env": env, "boundary": d.name, "claim": cl[1], "value": a, "specification": b},
                                      replay=_with_env(replay, env), confirmed=True)
    return n


def _with_env(replay, env):
    if replay is None:
        return None
    r = dict(replay)
    r["env"] = env
    return r


def _abstracted(conds):
    """True when the SMT translation of these conditions abstracts something: atoms other than variables, roots and constants are plain
    positive/real unknowns for z3, so its 'sat' is a model of the abstraction only"""
    for c in conds:
        e = getattr(c, "expr", None)
        if e is None:
            continue
        for i in nf.all_atoms(e):
            if nf.ATOMS.atoms[i][0] not in ("var", "root", "cpow"):
                return True
    return False


def _confirm(scn, decls, assumptions, rng, name, fns, rtol, env=None):
    """run the scenario concretely at a domain point; True if claim `name` fails there"""
    for _ in range(5):
        e = env or find_point(decls, assumptions, rng, fns=fns)
        if e is None:
            return None
        try:
            claims = scn(MkNum(e))
        except Infeasible:
            continue
        except Exception:
            return True  # real code raises at a point of the domain
        named = [cl for cl in claims if cl[1] == name]
        for cl in (named or claims):   # claim absent from the concrete run: any failing claim confirms
            if not _num_claim_holds(cl, rtol):
                return True
        if env is not None:
            return False
    return False


def _num_claim_holds(cl, rtol):
    kind = cl[0]
    if kind == "eq":
        L, sl = _flat(cl[2])
        R, sr = _flat(cl[3])
        if len(L) != len(R):
            return False
        return all(_close(float(a), float(b), rtol, 1e-10) for a, b in zip(L, R))
    if kind == "ge0":
        return all(float(x) >= -1e-12 for x in _flat(cl[2])[0])
    if kind == "gt0":
        return all(float(x) > 0 for x in _flat(cl[2])[0])
    if kind == "zero":
        return all(float(x) == 0.0 for x in _flat(cl[2])[0])
    if kind in ("true", "must"):
        v = cl[2]
        if isinstance(v, torch.Tensor):
            v = bool(v.all())
        return bool(v)
    return True


def _refute_or_undecided(scn, mk, assumptions, rng, name, k, a, b, fns, replay, rtol):
    """nf residual != 0: search a concrete point where both sides differ (true functions).
    differ -> Refuted (then confirmed on the real code); agree everywhere -> Undecided."""
    pts = 0
    for _ in range(12):
        env = find_point(mk.decls, assumptions, rng, fns=fns)
        if env is None:
            break
        pts += 1
        try:
            import mpmath
            mpmath.mp.dps = 40
            va = nf.evaluate(a, env, fns, mp=mpmath)
            vb = nf.evaluate(b, env, fns, mp=mpmath)
        except (ZeroDivisionError, ValueError):
            continue
        thr = mpmath.mpf(10) ** (-25 if not fns else -9)
        if abs(va - vb) > thr * max(1, abs(va), abs(vb)):
            confirmed = None
            try:
                claims = scn(MkNum(env))
                for cl in claims:
                    if cl[1] == name:
                        confirmed = not _num_claim_holds(cl, rtol)
            except Infeasible:
                confirmed = None
            except Exception as e:
                confirmed = True
            raise Refuted(
                "claim %s[%d]: sides differ. code: %s ; spec: %s ; at %s code=%s spec=%s" % (
                    name, k, nf.show(a, 4)[:700], nf.show(b, 4)[:700], str(env)[:600], mpmath.nstr(va, 15), mpmath.nstr(vb, 15)),
                witness={"claim": name, "index": k, "env": env, "code_value": mpmath.nstr(va, 20), "spec_value": mpmath.nstr(vb, 20)},
                replay=_with_env(replay, env), confirmed=confirmed)
    raise Undecided("claim %s[%d]: normal forms differ but agree numerically at %d points (rewrite theory incomplete): %s vs %s"
                    % (name, k, pts, nf.show(a, 6), nf.show(b, 6)))


def _raised_in_repo(exc):
    """does the traceback of exc pass through code under contract (a file of the repository under test, or a piece that vt.loopcut /
    a must-fail twin compiled verbatim from it)?"""
    from .runner import REPO
    tb = exc.__traceback__
    root = os.path.realpath(REPO)
    while tb is not None:
        fn = tb.tb_frame.f_code.co_filename
        if fn.startswith("<loopcut") or fn.startswith("<C16 twin") or fn.startswith("<vt twin") or os.path.realpath(fn).startswith(root + os.sep):
            return True
        tb = tb.tb_next
    return False


def scenario_ob(contract, name, tag, factory, args=(), clause="", funcs=(), seed=0, timeout=600, **kw):
    """Ob whose body is prove_scenario(contracts.<contract>.<factory>(*args)); the replay
    descriptor lets `check replay` rebuild the same scenario on the real code."""
    import importlib
    from .runner import Ob

    def body():
        mod = importlib.import_module("contracts.%s" % contract)
        scn = getattr(mod, factory)(*args)
        return prove_scenario(scn, seed=seed, replay={"contract": contract, "factory": factory, "args": list(args)}, **kw)
    return Ob(name, tag, body, clause=clause, funcs=funcs, timeout=timeout)


def replay_scenario(desc, seed=0):
    """re-run a scenario concretely (real torch, real code) at the witness point (or at
    random domain points when the witness has no point). returns list of failing claims."""
    import importlib
    mod = importlib.import_module("contracts.%s" % desc["contract"])
    args = [tuple(a) if isinstance(a, list) else a for a in desc.get("args", [])]
    scn = getattr(mod, desc["factory"])(*args)
    env = desc.get("env")
    rng = random.Random(seed)
    failing = []
    tried = 0
    envs = [env] if env else []
    if not envs:
        # discover declarations with a dry symbolic run to sample the domain
        ex = Explorer(max_paths=50, on_unknown="feasible")
        decls = None

        def run():
            mk = MkSym()
            try:
                scn(mk)
            finally:
                nonlocal decls
                decls = mk.decls
        try:
            ex.run(run)
        except Exception:
            pass
        for _ in range(5):
            envs.append(sample_env(decls or [], rng))
    for e in envs:
        tried += 1
        try:
            claims = scn(MkNum(e))
        except Infeasible:
            continue
        except Exception as ex_:
            failing.append({"env": e, "claim": "<raises>", "error": "%s: %s" % (type(ex_).__name__, ex_)})
            continue
        for cl in claims:
            if not _num_claim_holds(cl, 1e-9):
                d = {"env": e, "claim": cl[1]}
                if cl[0] == "eq":
                    d["code"] = [float(v) for v in _flat(cl[2])[0]][:8]
                    d["spec"] = [float(v) for v in _flat(cl[3])[0]][:8]
                failing.append(d)
    return failing, tried


# --- small polymorphic helpers for oracles (work in both modes) ---------------------------

def el(x, idx=()):
    """element of a tensor as a scalar usable in oracle arithmetic (RF or float)"""
    if isinstance(x, ST):
        v = x.a[idx]
        return v
    if isinstance(x, torch.Tensor):
        return float(x[idx])
    if isinstance(x, np.ndarray):
        return x[idx]
    return x


def _is_mp(x):
    return type(x).__module__.startswith("mpmath")


def slog(x):
    if isinstance(x, nf.RF):
        return nf.rlog(x)
    if _is_mp(x):
        import mpmath
        return mpmath.log(x)
    return math.log(x)


def sexp(x):
    if isinstance(x, nf.RF):
        return nf.rexp(x)
    if _is_mp(x):
        import mpmath
        return mpmath.exp(x)
    return math.exp(x)


def ssqrt(x):
    if isinstance(x, nf.RF):
        return nf.rsqrt(x)
    if _is_mp(x):
        import mpmath
        return mpmath.sqrt(x)
    return math.sqrt(x)


def slgamma(x):
    if isinstance(x, nf.RF):
        return nf.rlgamma(x)
    return math.lgamma(x)
