"""symtorch handler needed by contracts/C16.py only (imported from there; vt/symtorch.py is shared).

`requires_grad_`: the shared handler is the identity and leaves `ST.requires_grad` False.  The leapfrog
integrator asserts `parameters[0].requires_grad is False` on entry and clears the flag on exit, and the
autograd stand-in of C16 refuses to write `.grad` on a tensor that does not require it (as torch does), so
the flag has to be tracked.  Meaning given: `x.requires_grad_(b)` sets the flag on x and returns x.
"""
from __future__ import annotations

from vt.symtorch import reg


@reg("requires_grad_")
def _requires_grad_(x, requires_grad=True):
    x.requires_grad = bool(requires_grad)
    return x
