import argparse
import importlib
import json
import os
import sys

VERIF = os.path.dirname(os.path.dirname(os.path.abspath(__file__)))
REPO = os.environ.get("VERIF_REPO", "/repo")
sys.dont_write_bytecode = True
# the code under verification is the current working tree of /repo
sys.path.insert(0, REPO)
sys.path.insert(0, VERIF)


def main():
    ap = argparse.ArgumentParser(prog="check")
    ap.add_argument("what")
    ap.add_argument("arg", nargs="?")
    ap.add_argument("--tier", default=os.environ.get("VERIF_TIER", "quick"))
    ap.add_argument("--only", default=None, help="substring filter on obligation names (debugging)")
    ap.add_argument("--jobs", type=int, default=None)
    a = ap.parse_args()
    seed = int(os.environ.get("VERIF_SEED", "0"))
    if a.tier not in ("quick", "thorough"):
        a.tier = "quick"
    if a.what == "replay":
        from vt import replay
        sys.exit(replay.main(a.arg))
    if a.what == "selftest":
        from vt import selftest
        sys.exit(selftest.main(a.tier))
    pid = a.what
    import warnings
    warnings.filterwarnings("ignore", category=UserWarning)
    import torch
    torch.set_default_dtype(torch.float64)
    torch.distributions.Distribution.set_default_validate_args(False)
    import torchtree
    if not os.path.abspath(torchtree.__file__).startswith(os.path.abspath(REPO)):
        print("ERROR torchtree imported from %s, not from %s" % (torchtree.__file__, REPO))
        sys.exit(3)
    from vt import runner
    try:
        mod = importlib.import_module("contracts.%s" % pid)
        obs = mod.obligations(a.tier, seed)
    except Exception:
        import traceback
        traceback.print_exc()
        print("ERROR property=%s contract module failed to build obligations" % pid)
        sys.exit(3)
    if a.only:
        obs = [o for o in obs if a.only in o.name]
    meta = dict(mod.META)
    meta["checker_cmd"] = "./check %s --tier %s" % (pid, a.tier)
    rc = runner.run_property(pid, a.tier, seed, obs, meta, jobs=a.jobs)
    sys.exit(rc)


if __name__ == "__main__":
    main()
