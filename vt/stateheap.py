"""vt.stateheap - heap-level verification of ``state_dict`` / ``load_state_dict`` pairs.

The classes under contract are the real classes imported from the working tree of the
repository.  Nothing of them is re-written: this module only

* reads their source with ``ast`` to compute, per class,
    - the *frame*: the instance fields a run can change (written by a method other than
      ``__init__``/``from_json``, mutated through a container/owned-object method call,
      or assigned by another class through a collaborator reference); collaborators read by ``state_dict``
      are classified as delegated components / held objects,
    - the *foreign writes*: fields of collaborators (objects passed to ``__init__``) that the
      class assigns (``self._integrator.step_size = ...``),
    - a *copy-only report* of the ``state_dict``/``load_state_dict`` bodies (attribute reads,
      dict/list construction, nested state_dict calls, conversions only; control flow is
      reported with what its conditions read),
* replaces the values of the frame fields of a live instance by fresh, pairwise distinct
  sentinels of the same type/shape/dtype (the role of the symbolic state),
* pushes the real ``state_dict()`` output through the JSON encoder/decoder that the real save
  and load paths name (resolved from the source of ``save_parameters`` and ``main``),
* compares two heaps field by field with a *typed* deep equality (tensor dtype and
  ``nn.Parameter``-ness, container types, key types).
"""
from __future__ import annotations

import ast
import collections
import copy
import importlib
import inspect
import json
import math
import sys
import textwrap

INIT_LIKE = frozenset({"__init__", "from_json", "_parse_json", "from_json_safe"})
LOAD_LIKE = frozenset({"load_state_dict", "_load_state_dict"})
SAVE_LIKE = frozenset({"state_dict", "_state_dict"})
CONTAINER_MUTATORS = frozenset({
    "append", "appendleft", "extend", "extendleft", "pop", "popleft", "popitem", "clear", "insert",
    "remove", "add", "discard", "update", "setdefault", "rotate", "sort", "reverse"})
_NO_SOURCE_PREFIX = ("builtins", "abc", "typing", "collections", "torch", "numpy", "json", "types")
MISSING = type("MISSING", (), {"__repr__": lambda s: "<missing>"})()


# ------------------------------------------------------------------------------------------
# discovery
# ------------------------------------------------------------------------------------------
def import_all(package="torchtree"):
    """import every module of the package (what ``torchtree.main`` does before parsing)"""
    from torchtree.core.utils import package_contents
    failed = []
    for m in sorted(package_contents(package)):
        try:
            importlib.import_module(m)
        except Exception as e:  # optional dependencies
            failed.append((m, "%s: %s" % (type(e).__name__, e)))
    return failed


def _definer(cls, name, package):
    for c in cls.__mro__:
        if name in c.__dict__:
            return c if c.__module__.split(".")[0] == package else None
    return None


def discover(package="torchtree"):
    """all classes of the package for which a class *of the package* defines a saving method
    (state_dict/_state_dict) and a loading method (load_state_dict/_load_state_dict)"""
    failed = import_all(package)
    found = {}
    for name, mod in list(sys.modules.items()):
        if mod is None or name.split(".")[0] != package:
            continue
        for c in list(vars(mod).values()):
            if not inspect.isclass(c) or c.__module__.split(".")[0] != package:
                continue
            save = [n for n in SAVE_LIKE if _definer(c, n, package) is not None]
            load = [n for n in LOAD_LIKE if _definer(c, n, package) is not None]
            if save and load:
                found[c.__module__ + ":" + c.__qualname__] = c
    out = []
    for q in sorted(found):
        c = found[q]
        out.append({"qual": q, "cls": c, "abstract": sorted(getattr(c, "__abstractmethods__", ()))})
    return out, failed


# ------------------------------------------------------------------------------------------
# source scan
# ------------------------------------------------------------------------------------------
def has_source(cls):
    if cls is object or cls.__module__.split(".")[0] in _NO_SOURCE_PREFIX:
        return False
    try:
        inspect.getsource(cls)
        return True
    except (OSError, TypeError):
        return False


def is_plain_object(v):
    """an instance of a python class with source (not a builtin, tensor, container)"""
    t = type(v)
    if t.__module__.split(".")[0] in _NO_SOURCE_PREFIX:
        return False
    if isinstance(v, (int, float, str, bytes, bool, type(None), list, tuple, dict, set, collections.deque)):
        return False
    return hasattr(v, "__dict__")


def _class_def(cls):
    src = textwrap.dedent(inspect.getsource(cls))
    tree = ast.parse(src)
    for node in tree.body:
        if isinstance(node, ast.ClassDef):
            return node
    raise ValueError("no class definition in source of %s" % cls)


class Write:
    __slots__ = ("owner", "method", "kind", "path")

    def __init__(self, owner, method, kind, path):
        self.owner, self.method, self.kind, self.path = owner, method, kind, path

    def __repr__(self):
        return "%s.%s:%s:%s" % (self.owner, self.method, self.kind, ".".join(self.path))


def _path(node, aliases):
    """attribute/subscript chain rooted at ``self`` (or at a local alias of such a chain)"""
    if isinstance(node, ast.Name):
        if node.id == "self":
            return ()
        return aliases.get(node.id)
    if isinstance(node, ast.Attribute):
        p = _path(node.value, aliases)
        return None if p is None else p + (node.attr,)
    if isinstance(node, ast.Subscript):
        p = _path(node.value, aliases)
        return None if p is None else p + ("[]",)
    if isinstance(node, ast.Starred):
        return _path(node.value, aliases)
    return None


def _bind(target, value_path, aliases):
    if value_path is None:
        return
    if isinstance(target, ast.Name):
        if len(value_path) >= 1:
            aliases[target.id] = value_path


def _scan_function(owner, fn, writes, reads):
    name = fn.name
    aliases = {}

    def target_write(t, kind):
        if isinstance(t, (ast.Tuple, ast.List)):
            for e in t.elts:
                target_write(e, kind)
            return
        p = _path(t, aliases)
        if p is not None and len(p) >= 1:
            writes.append(Write(owner, name, kind, p))

    def visit(node):
        # aliases from loops / simple assignments (flow-insensitive, conservative)
        if isinstance(node, (ast.For, ast.comprehension)):
            it = node.iter
            if isinstance(it, ast.Call) and isinstance(it.func, ast.Name) and it.func.id in ("zip", "enumerate", "reversed", "list", "sorted"):
                args = it.args
                if it.func.id == "zip" and isinstance(node.target, (ast.Tuple, ast.List)):
                    for tgt, a in zip(node.target.elts, args):
                        p = _path(a, aliases)
                        _bind(tgt, None if p is None else p + ("[]",), aliases)
                elif it.func.id == "enumerate" and isinstance(node.target, (ast.Tuple, ast.List)) and len(node.target.elts) == 2:
                    p = _path(args[0], aliases)
                    _bind(node.target.elts[1], None if p is None else p + ("[]",), aliases)
                elif args:
                    p = _path(args[0], aliases)
                    _bind(node.target, None if p is None else p + ("[]",), aliases)
            else:
                p = _path(it, aliases)
                _bind(node.target, None if p is None else p + ("[]",), aliases)
        if isinstance(node, ast.Assign):
            if len(node.targets) == 1 and isinstance(node.targets[0], ast.Name):
                p = _path(node.value, aliases)
                if p is not None and len(p) >= 1:
                    aliases[node.targets[0].id] = p
                else:
                    aliases.pop(node.targets[0].id, None)
            for t in node.targets:
                if not isinstance(t, ast.Name):
                    target_write(t, "assign")
        elif isinstance(node, ast.AugAssign):
            if not isinstance(node.target, ast.Name):
                target_write(node.target, "aug")
            else:
                p = aliases.get(node.target.id)
                if p is not None:
                    writes.append(Write(owner, name, "aug", p))
        elif isinstance(node, ast.AnnAssign):
            if node.value is not None and not isinstance(node.target, ast.Name):
                target_write(node.target, "assign")
        elif isinstance(node, ast.Delete):
            for t in node.targets:
                target_write(t, "del")
        elif isinstance(node, ast.Call) and isinstance(node.func, ast.Attribute):
            p = _path(node.func.value, aliases)
            if p is not None and len(p) >= 1:
                writes.append(Write(owner, name, "call:" + node.func.attr, p))
        if isinstance(node, ast.Attribute) and isinstance(node.ctx, ast.Load):
            p = _path(node, aliases)
            if p is not None and len(p) >= 1:
                reads.append((owner, name, p))
        for child in ast.iter_child_nodes(node):
            if isinstance(child, (ast.FunctionDef, ast.AsyncFunctionDef, ast.Lambda, ast.ClassDef)) and child is not fn:
                continue
            visit(child)

    for stmt in fn.body:
        visit(stmt)


def _init_origins(cdef):
    """field -> 'param' | 'kwargs' | 'constructed' | 'literal' | 'other' for assignments in __init__"""
    out = {}
    for fn in cdef.body:
        if isinstance(fn, ast.FunctionDef) and fn.name == "__init__":
            params = {a.arg for a in fn.args.args + fn.args.kwonlyargs}
            for node in ast.walk(fn):
                if isinstance(node, ast.Assign) and len(node.targets) == 1:
                    t = node.targets[0]
                    if isinstance(t, ast.Attribute) and isinstance(t.value, ast.Name) and t.value.id == "self":
                        v = node.value
                        if isinstance(v, ast.Name) and v.id in params:
                            o = "param"
                        elif isinstance(v, ast.Call) and isinstance(v.func, ast.Attribute) and isinstance(v.func.value, ast.Name) and v.func.value.id == "kwargs":
                            o = "kwargs"
                        elif isinstance(v, ast.Call):
                            o = "constructed"
                        elif isinstance(v, ast.Constant):
                            o = "literal"
                        else:
                            o = "other"
                        # an object built by __init__ itself on any path makes the field 'constructed' (owned)
                        if o == "constructed" or t.attr not in out:
                            out[t.attr] = o
    return out


class ClassScan:
    """source facts about one class (its MRO classes that have python source)"""

    def __init__(self, cls):
        self.cls = cls
        self.writes = []
        self.reads = []
        self.origins = {}
        self.methods = collections.defaultdict(list)  # name -> [(owner, FunctionDef)] in MRO order
        self.properties = set()
        for c in cls.__mro__:
            if not has_source(c):
                continue
            cdef = _class_def(c)
            for k, v in _init_origins(cdef).items():
                self.origins.setdefault(k, v)
            for fn in cdef.body:
                if isinstance(fn, ast.FunctionDef):
                    self.methods[fn.name].append((c.__name__, fn))
                    if any((isinstance(d, ast.Name) and d.id == "property") or (isinstance(d, ast.Attribute) and d.attr in ("setter", "getter")) for d in fn.decorator_list):
                        self.properties.add(fn.name)
                    _scan_function(c.__name__, fn, self.writes, self.reads)

    def mutating_methods(self):
        """names of methods that (transitively through self.m() calls) write a field of self"""
        direct = {w.method for w in self.writes if w.method not in INIT_LIKE and not w.kind.startswith("call:")}
        direct |= {w.method for w in self.writes if w.method not in INIT_LIKE and w.kind.startswith("call:") and len(w.path) == 1 and w.kind[5:] in CONTAINER_MUTATORS}
        changed = True
        while changed:
            changed = False
            for name, defs in self.methods.items():
                if name in direct:
                    continue
                for _, fn in defs:
                    for node in ast.walk(fn):
                        if isinstance(node, ast.Call) and isinstance(node.func, ast.Attribute) and isinstance(node.func.value, ast.Name) and node.func.value.id == "self" and node.func.attr in direct:
                            direct.add(name)
                            changed = True
        return direct


_SCANS = {}


def scan(cls):
    if cls not in _SCANS:
        _SCANS[cls] = ClassScan(cls)
    return _SCANS[cls]


def frame(cls, inst, extra=()):
    """the frame of ``cls`` evaluated on a live instance (runtime types decide whether a field is
    a container, an owned nested object or a collaborator).

    returns dict(own=[fields]        leaf data / containers / owned nested objects: compared field by field,
                 delegated=[fields]  components with their own state_dict/load_state_dict contract,
                 held=[fields]       collaborators whose state this class saves itself (a Parameter),
                 foreign=[paths]     assignments into collaborators,
                 phantom=[fields]    written by the loader only and absent from a live instance,
                 why={field: reason})
    """
    sc = scan(cls)
    own, why, delegated, foreign, phantom, held = set(), {}, set(), set(), set(), set()

    def value(f):
        try:
            return inspect.getattr_static(inst, f)
        except AttributeError:
            return MISSING

    def stateful(v):
        return hasattr(v, "state_dict") and hasattr(v, "load_state_dict") and not isinstance(v, type)

    def classify_object_field(f, reason):
        v = inst.__dict__.get(f, MISSING)
        if stateful(v) and sc.origins.get(f) != "constructed":
            delegated.add(f)      # component with its own save/load contract
        elif isinstance(v, (list, tuple)) and sc.origins.get(f) in ("param", "kwargs") and all(stateful(e) for e in v):
            delegated.add(f)      # list of such components (possibly empty)
        elif v is None and sc.origins.get(f) in ("param", "kwargs"):
            delegated.add(f)      # optional component that is absent in this configuration
        elif is_plain_object(v) and sc.origins.get(f) != "constructed":
            held.add(f)           # collaborator whose state this class saves itself (e.g. a Parameter)
        # a leaf field that is saved but never changed after __init__ is configuration: a restart rebuilds it from
        # the same JSON configuration, so it is not in the frame (saving it is harmless, ignoring it on load is legitimate)

    for w in sc.writes:
        if w.method in INIT_LIKE:
            continue
        p = w.path
        f = p[0]
        if f in sc.properties and f not in inst.__dict__:
            continue  # write through a property setter: the setter's own writes are scanned
        if w.method in LOAD_LIKE:
            if len(p) == 1 and not w.kind.startswith("call:") and value(f) is MISSING:
                phantom.add(f)
            continue
        if w.kind.startswith("call:"):
            m = w.kind[5:]
            tgt = p
            v = inst.__dict__.get(f, MISSING) if len(tgt) == 1 else MISSING
            if len(tgt) == 1:
                if isinstance(v, (list, dict, set, collections.deque)) and m in CONTAINER_MUTATORS:
                    if sc.origins.get(f) == "param":
                        foreign.add(p + (m + "()",))
                    else:
                        own.add(f)
                        why.setdefault(f, "%s.%s calls self.%s.%s()" % (w.owner, w.method, f, m))
                elif is_plain_object(v):
                    if sc.origins.get(f) == "constructed":
                        if m in scan(type(v)).mutating_methods():
                            own.add(f)
                            why.setdefault(f, "%s.%s calls self.%s.%s() which writes fields of the owned %s" % (w.owner, w.method, f, m, type(v).__name__))
                    # calls on collaborators are their own business (their own frames)
            continue
        # assignment kinds
        if len(p) == 1 or (len(p) == 2 and p[1] == "[]"):
            own.add(f)
            why.setdefault(f, "%s.%s writes self.%s" % (w.owner, w.method, ".".join(p)))
        else:
            v = inst.__dict__.get(f, MISSING)
            if is_plain_object(v) and sc.origins.get(f) == "constructed":
                own.add(f)
                why.setdefault(f, "%s.%s writes self.%s (owned object)" % (w.owner, w.method, ".".join(p)))
            else:
                foreign.add(p)
    # fields read by the saving methods
    for owner, method, p in sc.reads:
        if method in SAVE_LIKE:
            f = p[0]
            if f in ("id", "_id") or f in sc.methods and f not in sc.properties:
                continue
            if f in sc.properties and f not in inst.__dict__:
                continue
            if f not in own and f not in delegated and f not in held:
                classify_object_field(f, "%s.%s reads self.%s" % (owner, method, ".".join(p)))
    for f in extra:
        if f not in own:
            own.add(f)
            why.setdefault(f, "assigned by another class through a collaborator reference")
    # an object-valued field that the run re-assigns but that is a stateful component stays delegated
    for f in list(own):
        v = inst.__dict__.get(f, MISSING)
        if stateful(v) and sc.origins.get(f) != "constructed":
            own.discard(f)
            delegated.add(f)
    own -= delegated
    own -= held
    return {"own": sorted(own), "delegated": sorted(delegated), "held": sorted(held), "foreign": sorted(foreign),
            "phantom": sorted(phantom - own), "why": why}


def foreign_targets(cls, inst):
    """resolve the foreign writes of cls on a live instance: [(type of written object, attribute, path)]"""
    out = []
    for p in frame(cls, inst)["foreign"]:
        obj = inst
        ok = True
        for step in p[:-1]:
            if step == "[]":
                try:
                    obj = next(iter(obj))
                except Exception:
                    ok = False
                    break
            else:
                obj = getattr(obj, step, MISSING)
                if obj is MISSING:
                    ok = False
                    break
        if ok:
            out.append((type(obj), p[-1], p))
        else:
            out.append((None, p[-1], p))
    return out


# ------------------------------------------------------------------------------------------
# copy-only report of the save / load bodies
# ------------------------------------------------------------------------------------------
_ALLOWED_CALLS = {
    "list", "tuple", "dict", "deque", "collections.deque", "Counter", "collections.Counter", "len", "hasattr", "int", "float", "str", "bool",
    "super", "torch.tensor", "torch.as_tensor", "Parameter.from_json", "copy.deepcopy", "deepcopy", "zip", "enumerate",
}
_ALLOWED_METHODS = {
    "update", "tolist", "clone", "detach", "items", "keys", "values", "get", "copy",
    "state_dict", "_state_dict", "load_state_dict", "_load_state_dict", "append", "to",
}


def _dotted(node):
    if isinstance(node, ast.Name):
        return node.id
    if isinstance(node, ast.Attribute):
        b = _dotted(node.value)
        return None if b is None else b + "." + node.attr
    return None


def copy_only_report(cls, frame_fields):
    """classify the bodies of the saving/loading methods of cls (all MRO definitions with source).

    kind: 'straight-line'      attribute reads, dict/list construction, nested (load_)state_dict, conversions
          'config-branching'   additionally if/for whose conditions and iterables read only fields outside
                               the frame, ids, hasattr/len of configuration, or the saved structure itself
          'value-dependent'    a condition reads a frame field, or other control flow / unknown calls
    'arithmetic' is reported separately (a body that computes on the values it copies)."""
    sc = scan(cls)
    frame_fields = set(frame_fields)
    reports = []
    for name in sorted(SAVE_LIKE | LOAD_LIKE):
        for owner, fn in sc.methods.get(name, []):
            notes, kind, arithmetic = [], "straight-line", []
            if all(isinstance(s, (ast.Pass, ast.Expr)) and (isinstance(s, ast.Pass) or isinstance(getattr(s, "value", None), ast.Constant)) for s in fn.body):
                reports.append({"method": "%s.%s" % (owner, name), "kind": "abstract", "notes": [], "arithmetic": []})
                continue

            def cond_reads(test):
                bad = []
                # ``self.f is None`` / ``is not None``: presence of an optional part; enumerated by the configurations
                if isinstance(test, ast.Compare) and len(test.ops) == 1 and isinstance(test.ops[0], (ast.Is, ast.IsNot)) \
                        and isinstance(test.comparators[0], ast.Constant) and test.comparators[0].value is None:
                    return bad
                for n in ast.walk(test):
                    if isinstance(n, ast.Attribute):
                        p = _path(n, {})
                        if p is not None and len(p) >= 1 and p[0] in frame_fields:
                            bad.append(".".join(p))
                return bad

            for node in ast.walk(fn):
                if isinstance(node, (ast.If, ast.IfExp)):
                    bad = cond_reads(node.test)
                    if bad:
                        kind = "value-dependent"
                        notes.append("condition reads frame field(s) %s" % bad)
                    elif kind == "straight-line":
                        kind = "config-branching"
                    notes.append("if " + ast.unparse(node.test))
                elif isinstance(node, (ast.For, ast.comprehension)):
                    bad = cond_reads(node.iter)
                    if bad:
                        notes.append("element-wise loop over frame field(s) %s" % bad)
                    if kind == "straight-line":
                        kind = "config-branching"
                    notes.append("for %s in %s" % (ast.unparse(node.target), ast.unparse(node.iter)))
                    for cnd in getattr(node, "ifs", []):
                        b2 = cond_reads(cnd)
                        if b2:
                            kind = "value-dependent"
                            notes.append("comprehension filter reads frame field(s) %s" % b2)
                elif isinstance(node, (ast.While, ast.Try, ast.With, ast.Raise, ast.Assert)):
                    kind = "value-dependent"
                    notes.append("control flow: " + type(node).__name__)
                elif isinstance(node, (ast.BinOp, ast.AugAssign)) or (isinstance(node, ast.UnaryOp) and not isinstance(node.op, ast.Not)):
                    arithmetic.append(ast.unparse(node))
                elif isinstance(node, ast.Call):
                    d = _dotted(node.func)
                    if isinstance(node.func, ast.Attribute) and node.func.attr in _ALLOWED_METHODS:
                        continue
                    if d in _ALLOWED_CALLS:
                        continue
                    kind = "value-dependent"
                    notes.append("call outside the copy-only whitelist: " + ast.unparse(node.func))
            reports.append({"method": "%s.%s" % (owner, name), "kind": kind, "notes": notes, "arithmetic": arithmetic})
    return reports


# ------------------------------------------------------------------------------------------
# sentinels
# ------------------------------------------------------------------------------------------
class Sentinels:
    """fresh, pairwise distinct values. ints start at 1009 (step 7), floats are dyadic non-integers
    (exactly representable), tensors are drawn from a seeded generator and are distinct with probability one
    (checked)."""

    def __init__(self, seed=0):
        import torch
        self._i = 0
        self._f = 0
        self.gen = torch.Generator().manual_seed(1234567 + int(seed))
        self.count = 0

    def fresh_int(self):
        self._i += 1
        self.count += 1
        return 1002 + 7 * self._i

    def fresh_float(self):
        self._f += 1
        self.count += 1
        return 0.3203125 + self._f * 0.0625 + self._f * 2.0 ** -20

    def fresh_tensor(self, like):
        import torch
        self.count += 1
        shape = tuple(like.shape)
        if like.dtype == torch.bool:
            t = torch.rand(shape, generator=self.gen) > 0.5
        elif like.dtype.is_floating_point:
            t = (torch.rand(shape, generator=self.gen, dtype=torch.float64) + 0.25 + self._f).to(like.dtype)
            self._f += 1
        else:
            t = torch.randint(1000, 2000000, shape, generator=self.gen).to(like.dtype)
        if isinstance(like, torch.nn.Parameter):
            t = torch.nn.Parameter(t, requires_grad=like.requires_grad)
        return t

    def of(self, v):
        """a fresh value with the type / shape / dtype / container structure of v"""
        import torch
        if v is None or isinstance(v, (str, bytes)):
            return v
        if isinstance(v, bool):
            return v
        if isinstance(v, int):
            return self.fresh_int()
        if isinstance(v, float):
            return self.fresh_float()
        if isinstance(v, torch.Tensor):
            return self.fresh_tensor(v)
        if isinstance(v, collections.deque):
            return collections.deque((self.of(e) for e in v), maxlen=v.maxlen)
        if isinstance(v, (list, tuple)):
            return type(v)(self.of(e) for e in v)
        if isinstance(v, dict):
            return type(v)((k, self.of(e)) for k, e in v.items())
        return v


def sentinelize(inst, cls, sent, extra=(), skip=(), _depth=0):
    """replace every leaf of every own-frame field of inst by a fresh sentinel. Owned nested objects are
    descended into through their own frame. Returns the list of field paths that were replaced."""
    fr = frame(cls, inst, extra)
    done = []
    for f in fr["own"]:
        if f in skip or f not in inst.__dict__:
            continue
        v = inst.__dict__[f]
        if is_plain_object(v):
            if _depth < 4:
                sub = sentinelize(v, type(v), sent, _depth=_depth + 1)
                done.extend("%s.%s" % (f, s) for s in sub)
            continue
        nv = sent.of(v)
        if nv is not v:
            inst.__dict__[f] = nv
            done.append(f)
    # held collaborators last and through their real setter: listeners re-establish derived fields
    # (HMCOperator.inverse_mass_matrix is recomputed by handle_parameter_changed)
    for f in fr["held"]:
        v = inst.__dict__.get(f, MISSING)
        if hasattr(v, "fire_parameter_changed") and hasattr(v, "tensor"):
            v.tensor = sent.fresh_tensor(v.tensor)
            done.append(f + ".tensor")
    return done


# ------------------------------------------------------------------------------------------
# typed deep equality
# ------------------------------------------------------------------------------------------
def same(a, b, path="", out=None, _seen=None, limit=40, tuple_is_list=False):
    """typed structural equality; returns a list of human readable differences (empty = equal).
    tuple_is_list: JSON cannot tell a tuple from a list; torch hyper-parameters such as Adam's betas are consumed
    by unpacking, so for torch components the two are identified (deque vs list is always a difference)."""
    import torch
    out = [] if out is None else out
    _seen = set() if _seen is None else _seen
    if len(out) >= limit:
        return out

    def diff(msg):
        out.append("%s: %s" % (path or "<root>", msg))

    if a is MISSING or b is MISSING:
        if a is not b:
            diff("%r vs %r" % (a, b))
        return out
    if isinstance(a, torch.Tensor) or isinstance(b, torch.Tensor):
        if not (isinstance(a, torch.Tensor) and isinstance(b, torch.Tensor)):
            diff("tensor vs %s" % (type(b).__name__ if isinstance(a, torch.Tensor) else type(a).__name__))
        elif a.dtype != b.dtype:
            diff("dtype %s vs %s" % (a.dtype, b.dtype))
        elif tuple(a.shape) != tuple(b.shape):
            diff("shape %s vs %s" % (tuple(a.shape), tuple(b.shape)))
        elif isinstance(a, torch.nn.Parameter) != isinstance(b, torch.nn.Parameter):
            diff("nn.Parameter %s vs %s" % (isinstance(a, torch.nn.Parameter), isinstance(b, torch.nn.Parameter)))
        elif not torch.equal(torch.nan_to_num(a.detach().double(), nan=12345.678) if a.dtype != torch.bool else a,
                             torch.nan_to_num(b.detach().double(), nan=12345.678) if b.dtype != torch.bool else b):
            diff("values %s vs %s" % (_short(a), _short(b)))
        return out
    if tuple_is_list and isinstance(a, (list, tuple)) and isinstance(b, (list, tuple)):
        a, b = list(a), list(b)
    if type(a) is not type(b):
        diff("type %s (%s) vs %s (%s)" % (type(a).__name__, _short(a), type(b).__name__, _short(b)))
        return out
    if isinstance(a, float):
        if not (a == b or (math.isnan(a) and math.isnan(b))):
            diff("%r vs %r" % (a, b))
        return out
    if isinstance(a, (int, str, bytes, bool, type(None))):
        if a != b:
            diff("%r vs %r" % (a, b))
        return out
    if isinstance(a, (list, tuple, collections.deque)):
        if len(a) != len(b):
            diff("length %d vs %d" % (len(a), len(b)))
            return out
        for i, (x, y) in enumerate(zip(a, b)):
            same(x, y, "%s[%d]" % (path, i), out, _seen, limit, tuple_is_list)
        return out
    if isinstance(a, dict):
        ka = {(type(k).__name__, k) for k in a}
        kb = {(type(k).__name__, k) for k in b}
        if ka != kb:
            diff("keys %s vs %s" % (sorted(map(str, ka - kb)), sorted(map(str, kb - ka))))
            return out
        for k in a:
            same(a[k], b[k], "%s[%r]" % (path, k), out, _seen, limit, tuple_is_list)
        return out
    key = (id(a), id(b))
    if key in _seen:
        return out
    _seen.add(key)
    # torchtree parameters: identity is (id, tensor); listeners are wiring, not state
    if hasattr(a, "tensor") and hasattr(a, "id") and hasattr(a, "fire_parameter_changed"):
        same(a.id, b.id, path + ".id", out, _seen, limit, tuple_is_list)
        same(a.tensor, b.tensor, path + ".tensor", out, _seen, limit, tuple_is_list)
        return out
    if hasattr(a, "state_dict") and type(a).__module__.split(".")[0] == "torch":
        same(a.state_dict(), b.state_dict(), path + ".state_dict()", out, _seen, limit, tuple_is_list)
        return out
    if is_plain_object(a):
        da, db = a.__dict__, b.__dict__
        for k in sorted(set(da) | set(db)):
            same(da.get(k, MISSING), db.get(k, MISSING), "%s.%s" % (path, k), out, _seen, limit, tuple_is_list)
        return out
    if a != b:
        diff("%r vs %r" % (a, b))
    return out


def _short(v):
    s = repr(v)
    s = " ".join(s.split())
    return s if len(s) <= 90 else s[:87] + "..."


def compare_frames(a, b, cls, extra=(), transient=()):
    """differences between two instances over the own frame of cls"""
    fr = frame(cls, a, extra)
    out = []
    for f in fr["own"]:
        if f in transient:
            continue
        va = a.__dict__.get(f, MISSING)
        vb = b.__dict__.get(f, MISSING)
        if va is MISSING and vb is MISSING:
            continue
        same(va, vb, f, out)
    for f in fr["held"]:
        same(a.__dict__.get(f, MISSING), b.__dict__.get(f, MISSING), f, out)
    return out


# ------------------------------------------------------------------------------------------
# the real JSON path
# ------------------------------------------------------------------------------------------
class PathChanged(Exception):
    pass


def json_path():
    """resolve, from the source of the real save and load paths, the encoder class passed to json.dump by
    ``save_parameters`` and the decoder class passed to json.load by ``torchtree.torchtree.main``."""
    import torchtree.core.parameter_utils as pu
    import torchtree.torchtree as tt

    def cls_kw(fn, callee):
        names = set()
        for node in ast.walk(ast.parse(textwrap.dedent(inspect.getsource(fn)))):
            if isinstance(node, ast.Call) and _dotted(node.func) == callee:
                kw = [k for k in node.keywords if k.arg == "cls"]
                names.add(_dotted(kw[0].value) if kw else None)
        return names

    # searched in the whole defining modules, so that moving the calls into a helper of the same module is not an alarm
    enc = cls_kw(pu, "json.dump") | cls_kw(pu, "json.dumps")
    dec = cls_kw(tt, "json.load") | cls_kw(tt, "json.loads")
    # main() parses the configuration with a plain json.load and the checkpoint with a decoder
    dec_ck = {d for d in dec if d is not None}
    if len(enc) != 1 or None in enc or len(dec_ck) != 1:
        raise PathChanged("cannot identify a unique encoder/decoder: dump cls=%s, load cls=%s" % (enc, dec))
    encoder = getattr(pu, next(iter(enc)))
    decoder = getattr(tt, next(iter(dec_ck)))
    # shape of the restore path in main(), structurally (the names of main()'s locals are not part of it):
    #   update_parameters(<config>, <tensors by id>)   and   <obj>.load_state_dict(<others by id>[<obj>.id])
    t_main = ast.parse(textwrap.dedent(inspect.getsource(tt)))
    has_update = any(isinstance(n, ast.Call) and _dotted(n.func) == "update_parameters" and len(n.args) == 2 for n in ast.walk(t_main))
    has_load = any(isinstance(n, ast.Call) and isinstance(n.func, ast.Attribute) and n.func.attr == "load_state_dict" and len(n.args) == 1
                   and isinstance(n.args[0], ast.Subscript) and isinstance(n.args[0].slice, ast.Attribute) and n.args[0].slice.attr == "id"
                   and isinstance(n.func.value, ast.Name) and isinstance(n.args[0].slice.value, ast.Name) and n.func.value.id == n.args[0].slice.value.id
                   for n in ast.walk(t_main))
    if not has_update:
        raise PathChanged("main() no longer calls update_parameters(<config>, <checkpoint tensors>)")
    if not has_load:
        raise PathChanged("main() no longer calls <obj>.load_state_dict(<checkpoint entries>[<obj>.id])")
    return encoder, decoder


def json_roundtrip(obj, encoder, decoder):
    """what a value stored in a checkpoint looks like after a restart: real encoder -> text -> real decoder"""
    return json.loads(json.dumps(obj, cls=encoder, indent=2), cls=decoder)


def split_checkpoint(checkpoint):
    """the classification loop of main(): parameters by id / everything else by id"""
    tensors, others = {}, {}
    for param in checkpoint:
        if param["type"] in ("torchtree.Parameter", "Parameter"):
            tensors[param["id"]] = param
        else:
            others[param["id"]] = param
    return tensors, others


class TolerantDict(dict):
    """a dict that answers a missing key with a fresh marker and records the key (diagnosis only: used to find
    out what else a loader loses once a spurious key read is out of the way)"""

    def __init__(self, *a, **k):
        super().__init__(*a, **k)
        self.missing = []

    def __missing__(self, key):
        self.missing.append(key)
        return "<no such key %r in the saved state>" % (key,)


# ------------------------------------------------------------------------------------------
# contract stand-ins for components
# ------------------------------------------------------------------------------------------
class SpecStateful:
    """stand-in for a component that has its own state_dict/load_state_dict contract. Its state is an opaque
    payload; it records what load_state_dict receives. ``with_id`` mimics the torchtree convention (the saved
    dict carries the id), torch objects have none."""

    def __init__(self, id_, payload, with_id=True, **attrs):
        self._id = id_
        self._payload = payload
        self._with_id = with_id
        self.received = []
        for k, v in attrs.items():
            setattr(self, k, v)

    @property
    def id(self):
        return self._id

    def state_dict(self):
        d = {"id": self._id} if self._with_id else {}
        d.update(copy.deepcopy(self._payload))
        return d

    def load_state_dict(self, state_dict):
        self.received.append(copy.deepcopy(state_dict))
