"""check replay <file>: re-run a recorded violation against the real code with real torch."""
import json
import sys


def main(path):
    import torch
    torch.set_default_dtype(torch.float64)
    torch.distributions.Distribution.set_default_validate_args(False)
    d = json.load(open(path))
    print("property=%s obligation=%s" % (d["property"], d["obligation"]))
    print("verifier output: %s" % (d.get("verifier_output") or "")[:2000])
    rp = d.get("replay")
    if not rp:
        print("no replayable input recorded (no-failing-input-found)")
        return 0
    if rp.get("kind") == "custom":
        import importlib
        mod = importlib.import_module("contracts.%s" % rp["contract"])
        ok, msg = getattr(mod, rp["func"])(rp.get("args"))
        print(msg)
        print("REPRODUCED" if not ok else "NOT-REPRODUCED")
        return 1 if not ok else 0
    from vt.scenario import replay_scenario
    failing, tried = replay_scenario(rp)
    for f in failing[:10]:
        print("FAILS on real code:", json.dumps(f, default=str)[:1000])
    print("REPRODUCED" if failing else "NOT-REPRODUCED (%d points tried)" % tried)
    return 1 if failing else 0
