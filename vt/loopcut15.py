"""Loop-cut helpers for C15 on top of `vt.loopcut` (DESIGN 2.1 "Loops"); vt/loopcut.py itself is shared and unchanged.

`cut_only_while(func)`   locates THE top-level `while` loop of a repository function from its current source
                         (refuses with Undecided when there is none or more than one), and returns the
                         `vt.loopcut.Cut` of it: prefix / body / suffix compiled verbatim in the defining module's
                         globals, `break`/`continue` of the cut loop turned into tagged returns, refusal on
                         yield / nonlocal / loop-else / return-in-loop.  Re-done from source on every call.
`twin(func, transformer, label)`  a must-fail twin: the source of `func` is parsed, `transformer` (an
                         ast.NodeTransformer that must report at least one rewrite in `transformer.hits`) is applied,
                         the result is compiled in the same globals and registered in `linecache`, so that the
                         unmodified `vt.loopcut.cut` can cut the twin exactly like the original.  Twins are only
                         used by `C15.vacuity.*`; nothing of /repo is touched.
`sha(func)`              sha256 (16 hex) of the dedented current source of func.
"""
from __future__ import annotations

import ast
import hashlib
import inspect
import itertools
import linecache
import textwrap

from . import loopcut
from .cond import Undecided

_COUNTER = itertools.count()


def _fn(func):
    func = inspect.unwrap(func)
    return getattr(func, "__func__", func)


def source_of(func):
    try:
        return textwrap.dedent(inspect.getsource(_fn(func)))
    except (OSError, TypeError) as e:
        raise Undecided("loopcut15: source of %s not available: %s" % (getattr(func, "__qualname__", func), e))


def sha(func):
    return hashlib.sha256(source_of(func).encode()).hexdigest()[:16]


def while_ordinal(func):
    """ordinal (among the top-level loops, the numbering `vt.loopcut.cut` uses) of the unique top-level `while`"""
    tree = ast.parse(source_of(func))
    if len(tree.body) != 1 or not isinstance(tree.body[0], ast.FunctionDef):
        raise Undecided("loopcut15: %s is not a plain function definition" % func.__qualname__)
    loops = [n for n in tree.body[0].body if isinstance(n, (ast.For, ast.While))]
    whiles = [i for i, n in enumerate(loops) if isinstance(n, ast.While)]
    if len(whiles) != 1:
        raise Undecided("loopcut15: %s has %d top-level while loops (expected exactly one): the loop under contract "
                        "can no longer be located" % (func.__qualname__, len(whiles)))
    return whiles[0]


def cut_only_while(func):
    c = loopcut.cut(func, while_ordinal(func))
    if c.kind != "while":
        raise Undecided("loopcut15: located loop is not a while loop")
    return c


def twin(func, transformer, label):
    """function object compiled from the transformed source of func (same globals); inspect.getsource works on it"""
    f = _fn(func)
    src = source_of(f)
    tree = ast.parse(src)
    tree = transformer.visit(tree)
    if not getattr(transformer, "hits", 0):
        raise Undecided("loopcut15: twin '%s' of %s did not change anything (the pattern it mutates is gone)" % (label, f.__qualname__))
    ast.fix_missing_locations(tree)
    new_src = ast.unparse(tree) + "\n"
    filename = "<vt twin %s %s #%d>" % (f.__qualname__, label, next(_COUNTER))
    code = compile(new_src, filename, "exec")
    linecache.cache[filename] = (len(new_src), None, new_src.splitlines(True), filename)
    ns = {}
    exec(code, f.__globals__, ns)
    g = ns[f.__name__]
    g.__qualname__ = f.__qualname__ + "~" + label
    return g
