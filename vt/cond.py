"""Conditions on symbolic reals and the path-forking engine (DESIGN 2.1 "Branches").

`Cond` is `expr rel 0`.  `bool(cond)` inside `explore()` consults the current path:
implied -> that value; otherwise the run forks (deterministic re-execution with a
decision prefix, all feasible paths explored, budget overrun raises Undecided).
Outside `explore()` a non-constant Cond raises (fail closed).
"""
from __future__ import annotations

from fractions import Fraction as Q

from . import nf


class Undecided(Exception):
    """the verifier cannot decide (budget, solver unknown, unsupported op)"""


class Infeasible(Exception):
    """current path contradicts an assumption: path is abandoned (not a result)"""


class Cond:
    __slots__ = ("expr", "rel", "_k")

    def __init__(self, expr, rel):
        self.expr = expr
        self.rel = rel
        self._k = None

    @staticmethod
    def make(expr, rel):
        """expr rel 0 ; constant-folds to Python bool"""
        expr = nf.simplify(expr)
        if nf.has_fn(expr, "sg"):
            # a stop-gradient ghost (value produced under no_grad / detach) is the identity on VALUES: a comparison sees through it
            expr = nf.simplify(nf.unwrap(expr, "sg"))
        if expr.is_const():
            v = expr.const_value()
            return {"<": v < 0, "<=": v <= 0, "==": v == 0, "!=": v != 0}[rel]
        # syntactic sign knowledge
        if rel in ("<", "<="):
            if nf.rf_positive(expr):
                return False
            if nf.rf_negative(expr):
                return True
            if rel == "<=" and nf.rf_nonneg(-expr):
                return True
            if rel == "<" and nf.rf_nonneg(expr):
                return False
        else:
            if nf.rf_positive(expr) or nf.rf_negative(expr):
                return rel == "!="
        return Cond(expr, rel)

    def key(self):
        if self._k is None:
            self._k = (self.expr.key(), self.rel)
        return self._k

    def negate(self):
        if self.rel == "<":
            return Cond(-self.expr, "<=")
        if self.rel == "<=":
            return Cond(-self.expr, "<")
        if self.rel == "==":
            return Cond(self.expr, "!=")
        return Cond(self.expr, "==")

    def __bool__(self):
        ex = _CURRENT[0]
        if ex is None:
            raise Undecided("symbolic condition evaluated outside explore(): %s" % self)
        return ex.decide(self)

    def __repr__(self):
        return "Cond(%s %s 0)" % (nf.show(self.expr, 6), self.rel)

    # logical combination of scalar conds forces decisions (short-circuit like Python)
    def __and__(self, o):
        return bool(self) and bool(o)

    def __or__(self, o):
        return bool(self) or bool(o)

    def __invert__(self):
        r = self.negate()
        return r


_CURRENT = [None]


class Explorer:
    def __init__(self, assumptions=(), max_paths=20000, timeout_ms=10000, on_unknown="raise"):
        self.assumptions = [a for a in assumptions if a is not True]
        if any(a is False for a in self.assumptions):
            raise Infeasible("assumption is constant False")
        self.max_paths = max_paths
        self.timeout_ms = timeout_ms
        self.prefix = []
        self.pos = 0
        self.path = []
        self.cache = {}
        self.paths_run = 0
        self.infeasible_paths = 0
        self.decisions_total = 0
        self.on_unknown = on_unknown

    def _feasible(self, conds):
        from . import smt
        key = tuple(c.key() for c in conds)
        r = self.cache.get(key)
        if r is None:
            st, _ = smt.check(conds, self.timeout_ms)
            r = st
            self.cache[key] = r
        return r

    def decide(self, c: Cond) -> bool:
        # already on path?
        k = c.key()
        nk = c.negate().key()
        for pc in self.path:
            if pc.key() == k:
                return True
            if pc.key() == nk:
                return False
        base = self.assumptions + self.path
        st_t = self._feasible(base + [c])
        st_f = self._feasible(base + [c.negate()])
        if "unknown" in (st_t, st_f):
            if self.on_unknown == "raise":
                raise Undecided("solver unknown on branch condition %s" % c)
            # conservative: treat unknown as feasible
        t_ok = st_t != "unsat"
        f_ok = st_f != "unsat"
        if t_ok and f_ok:
            # a real fork: only these consume / extend the decision prefix (an implied condition must not
            # eat a prefix entry on re-execution, otherwise later forks are replayed with the wrong decision)
            if self.pos < len(self.prefix):
                v = self.prefix[self.pos]
                self.pos += 1
                self.path.append(c if v else c.negate())
                return v
            self.decisions_total += 1
            self.prefix.append(True)
            self.pos += 1
            self.pending.append(self.prefix[:-1] + [False])
            self.path.append(c)
            return True
        if t_ok:
            return True
        if f_ok:
            return False
        raise Infeasible("path infeasible")

    def assume(self, c):
        if c is True:
            return
        if c is False:
            raise Infeasible("assumed False")
        k = c.key()
        for pc in self.path:
            if pc.key() == k:
                return
        st = self._feasible(self.assumptions + self.path + [c])
        if st == "unsat":
            raise Infeasible("assumption contradicts path")
        self.path.append(c)

    def run(self, fn):
        """yields (result, path_conditions) for every feasible path"""
        self.pending = [[]]
        results = []
        while self.pending:
            self.prefix = self.pending.pop()
            self.pos = 0
            self.path = []
            self.paths_run += 1
            if self.paths_run > self.max_paths:
                raise Undecided("path budget %d exceeded" % self.max_paths)
            prev = _CURRENT[0]
            _CURRENT[0] = self
            try:
                r = fn()
                results.append((r, list(self.path)))
                if self.pos != len(self.prefix):
                    raise Undecided("re-execution did not consume its decision prefix (non-deterministic scenario?)")
            except Infeasible:
                self.infeasible_paths += 1
            finally:
                _CURRENT[0] = prev
        return results


def explore(fn, assumptions=(), **kw):
    ex = Explorer(assumptions, **kw)
    res = ex.run(fn)
    return res, ex


def assume(c):
    ex = _CURRENT[0]
    if ex is None:
        raise Undecided("assume outside explore()")
    ex.assume(c)


def current_path():
    ex = _CURRENT[0]
    return [] if ex is None else list(ex.assumptions) + list(ex.path)


def compare3(a, b):
    """-1, 0, 1 (forks)"""
    if bool(a < b):
        return -1
    if bool(a == b):
        return 0
    return 1


TIES = ["stable"]  # 'stable' | 'assume_distinct' (symbolic values are assumed pairwise distinct and distinct from constants)


def sym_argsort(vals, descending=False, ties=None):
    ties = ties or TIES[0]
    return _sym_argsort(vals, descending, ties)


def _sym_argsort(vals, descending=False, ties="stable"):
    """insertion sort driven by forking comparisons; returns list of indices.
    ties: 'stable' keeps original order for equal keys; 'assume_distinct' assumes none."""
    idx = []
    for i, v in enumerate(vals):
        pos = len(idx)
        # find insertion point from the right (stable)
        while pos > 0:
            j = idx[pos - 1]
            w = vals[j]
            c = (w < v) if descending else (v < w)
            if isinstance(c, Cond) or c is True or c is False:
                lt = bool(c)
            else:
                lt = bool(c)
            if lt:
                pos -= 1
            else:
                if ties == "assume_distinct":
                    e = (v == w)
                    if e is not True and e is not False:
                        assume(e.negate())
                else:
                    # decide equality explicitly so ties are separate paths
                    bool(v == w)
                break
        idx.insert(pos, i)
    return idx
