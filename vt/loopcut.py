"""AST loop cut (DESIGN 2.1 "Loops").

`cut(func, ordinal)` re-parses the CURRENT source of a repository function, locates the `ordinal`-th loop
among the top-level statements of its body and compiles, in the globals of the defining module,

    prefix(<original parameters>)      the statements before the loop, verbatim, then `return locals()`
    body(**live)                       the loop body statements, verbatim, then `return locals()`
    suffix(**live)                     the statements after the loop, verbatim (its `return` is the function's)

`live` is a dict of local variables (normally what prefix/body returned, or a fresh symbolic state that
satisfies the sidecar invariant).  What the extraction drops: the loop header (reported in `Cut.header`, the
caller states what it assumes about it), nothing of the body.  The only rewriting: a `break` / `continue`
that belongs to the cut loop becomes `return ("break"|"continue", locals())` (reported in `Cut.rewrites`).
The cut refuses (raises Undecided, never guesses) on: a loop that is not a direct child of the function body,
a loop `else:`, `yield`, `nonlocal`/`global`, a `return` inside the loop body, closures / zero-argument
`super()` (free variables), decorators other than none.
"""
from __future__ import annotations

import ast
import copy
import hashlib
import inspect
import textwrap

from .cond import Undecided


class Cut:
    def __init__(self):
        self.prefix = self.body = self.suffix = None
        self.header = ""        # source text of the dropped header
        self.target = ""        # loop variable(s)
        self.iter = ""          # iterable expression (for) / test (while)
        self.kind = ""          # 'for' | 'while'
        self.rewrites = []
        self.source_sha = ""
        self.n_prefix = self.n_body = self.n_suffix = 0
        self.params = []
        self.target_names = []
        self.body_code = self.prefix_code = self.suffix_code = None
        self.body_source = ""

    def report(self):
        return {"header_dropped": self.header, "prefix_statements": self.n_prefix, "body_statements": self.n_body,
                "suffix_statements": self.n_suffix, "rewrites": self.rewrites, "source_sha256": self.source_sha}


def local_by_role(state, pred, what, exclude=()):
    """name of the UNIQUE live local whose current value satisfies `pred` — contracts identify the code's temporaries by role
    (\"the list the scalers are collected in\"), never by name, so that renaming a local is not an alarm.  Not unique -> Undecided."""
    cand = []
    for k, v in state.items():
        if k in exclude:
            continue
        try:
            ok = bool(pred(v))
        except Exception:
            ok = False
        if ok:
            cand.append(k)
    if len(cand) != 1:
        raise Undecided("loopcut: cannot identify %s among the live locals (candidates: %s)" % (what, cand))
    return cand[0]


class _BreakRewriter(ast.NodeTransformer):
    """break/continue of the cut loop -> tagged return; nested loops keep theirs"""

    def __init__(self, log):
        self.log = log

    def visit_For(self, node):
        return node

    visit_While = visit_For
    visit_AsyncFor = visit_For

    def visit_FunctionDef(self, node):
        return node

    visit_AsyncFunctionDef = visit_FunctionDef
    visit_Lambda = visit_FunctionDef
    visit_ClassDef = visit_FunctionDef

    def _tagged(self, node, tag):
        self.log.append("line %d: %s -> return (%r, locals())" % (node.lineno, tag, tag))
        call = ast.Call(func=ast.Name(id="locals", ctx=ast.Load()), args=[], keywords=[])
        r = ast.Return(value=ast.Tuple(elts=[ast.Constant(value=tag), call], ctx=ast.Load()))
        return ast.copy_location(r, node)

    def visit_Break(self, node):
        return self._tagged(node, "break")

    def visit_Continue(self, node):
        return self._tagged(node, "continue")


def _names_stored(nodes):
    out = set()
    for n in nodes:
        for x in ast.walk(n):
            if isinstance(x, ast.Name) and isinstance(x.ctx, (ast.Store, ast.Del)):
                out.add(x.id)
    return out


def _ret_locals():
    return ast.Return(value=ast.Call(func=ast.Name(id="locals", ctx=ast.Load()), args=[], keywords=[]))


def _mkfun(name, argnames, stmts, globs, filename):
    args = ast.arguments(posonlyargs=[], args=[ast.arg(arg=a) for a in argnames], vararg=None, kwonlyargs=[],
                         kw_defaults=[], kwarg=None, defaults=[])
    fdef = ast.FunctionDef(name=name, args=args, body=stmts or [ast.Pass()], decorator_list=[], returns=None,
                           type_comment=None, type_params=[])
    mod = ast.Module(body=[fdef], type_ignores=[])
    ast.fix_missing_locations(mod)
    code = compile(mod, filename, "exec")
    ns = {}
    exec(code, globs, ns)  # the def gets `globs` as its __globals__: names resolve in the defining module
    return ns[name]


def cut(func, ordinal=0):
    func = inspect.unwrap(func)
    if getattr(func, "__func__", None) is not None:
        func = func.__func__
    if func.__code__.co_freevars:
        raise Undecided("loopcut: %s has free variables %s (closure / zero-argument super())" % (func.__qualname__, func.__code__.co_freevars))
    try:
        src = textwrap.dedent(inspect.getsource(func))
    except (OSError, TypeError) as e:
        raise Undecided("loopcut: source of %s not available: %s" % (func.__qualname__, e))
    tree = ast.parse(src)
    if len(tree.body) != 1 or not isinstance(tree.body[0], ast.FunctionDef):
        raise Undecided("loopcut: %s is not a plain function definition" % func.__qualname__)
    fdef = tree.body[0]
    if fdef.decorator_list:
        raise Undecided("loopcut: decorated function %s" % func.__qualname__)
    for x in ast.walk(fdef):
        if isinstance(x, (ast.Yield, ast.YieldFrom, ast.Nonlocal, ast.Global, ast.Await)):
            raise Undecided("loopcut: %s uses %s" % (func.__qualname__, type(x).__name__))
    loops = [n for n in fdef.body if isinstance(n, (ast.For, ast.While))]
    if ordinal >= len(loops):
        raise Undecided("loopcut: loop #%d of %s can no longer be located (%d top-level loops)" % (ordinal, func.__qualname__, len(loops)))
    loop = loops[ordinal]
    if loop.orelse:
        raise Undecided("loopcut: loop else-clause")
    for st in loop.body:
        for x in ast.walk(st):
            if isinstance(x, ast.Return):
                raise Undecided("loopcut: return inside the cut loop")
    idx = fdef.body.index(loop)
    pre, post = fdef.body[:idx], fdef.body[idx + 1:]
    a = fdef.args
    if a.vararg or a.kwarg or a.kwonlyargs or a.posonlyargs:
        raise Undecided("loopcut: unsupported parameter kinds")
    params = [x.arg for x in a.args]

    c = Cut()
    c.params = params
    c.func_ast, c.loop_ast = fdef, loop      # for role identification by structure (which collaborator call binds a local), never rewritten
    c.kind = "for" if isinstance(loop, ast.For) else "while"
    c.target = ast.unparse(loop.target) if isinstance(loop, ast.For) else ""
    c.target_names = [x.id for x in ast.walk(loop.target) if isinstance(x, ast.Name)] if isinstance(loop, ast.For) else []
    c.iter = ast.unparse(loop.iter) if isinstance(loop, ast.For) else ast.unparse(loop.test)
    c.header = ("for %s in %s:" % (c.target, c.iter)) if c.kind == "for" else ("while %s:" % c.iter)
    c.source_sha = hashlib.sha256(src.encode()).hexdigest()[:16]
    c.n_prefix, c.n_body, c.n_suffix = len(pre), len(loop.body), len(post)
    c.body_source = "\n".join(ast.unparse(s) for s in loop.body)

    body = [_BreakRewriter(c.rewrites).visit(copy.deepcopy(s)) for s in loop.body]
    # live variables: everything the function can have bound at that point (parameters, names stored in the
    # prefix, in the body itself — loop-carried — and the loop target)
    live = list(params)
    for n in sorted(_names_stored(pre) | _names_stored(loop.body) | (_names_stored([loop.target]) if c.kind == "for" else set())):
        if n not in live:
            live.append(n)
    c.live = live
    globs = func.__globals__
    tag = "<loopcut %s#%d %%s>" % (func.__qualname__, ordinal)
    pf = _mkfun("__vt_prefix", params, [copy.deepcopy(s) for s in pre] + [_ret_locals()], globs, tag % "prefix")
    bf = _mkfun("__vt_body", live, body + [_ret_locals()], globs, tag % "body")
    live_s = list(live)
    for n in sorted(_names_stored(post)):
        if n not in live_s:
            live_s.append(n)
    sf = _mkfun("__vt_suffix", live_s, [copy.deepcopy(s) for s in post], globs, tag % "suffix")
    c.prefix_code, c.body_code, c.suffix_code = pf.__code__, bf.__code__, sf.__code__

    _UNSET = object()

    def run_prefix(*args, **kw):
        return pf(*args, **kw)

    def run_body(state):
        """state: dict of live locals. Unbound names may be omitted (they get a sentinel that raises on use
        only through the code's own operations)."""
        kw = {n: state.get(n, _UNSET) for n in live}
        r = bf(**kw)
        if isinstance(r, tuple) and len(r) == 2 and r[0] in ("break", "continue") and isinstance(r[1], dict):
            tagv, loc = r
            return tagv, {k: v for k, v in loc.items() if v is not _UNSET}
        return "next", {k: v for k, v in r.items() if v is not _UNSET}

    def run_suffix(state):
        kw = {n: state.get(n, _UNSET) for n in live_s}
        return sf(**kw)

    c.prefix, c.body, c.suffix = run_prefix, run_body, run_suffix
    return c
