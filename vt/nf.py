"""Exact normal form for real-valued terms (DESIGN 2.2, back end 1).

A symbolic scalar is an RF: a quotient num/den of *generalised* polynomials over Q.
Indeterminates ("atoms") are variables and canonicalised function applications.
Monomials carry rational (possibly negative) exponents, so division by a single term
is exact and sqrt(x) of a positive atom is x^(1/2).

Soundness contract of this module: every rewrite used is an identity over the reals
under the side conditions it records (positivity of log arguments / radicands,
non-vanishing of divisors).  Side conditions are appended to `SIDE` (a list the
obligation runner inspects and discharges or reports).  `RF.__eq__`-style identity is
decided by `is_zero(a - b)`: cross multiplication + exact zero test.  Distinct atoms
are treated as independent indeterminates, hence the test can only *prove* identities
(never wrongly), it may fail to prove a true one.

Interpreted symbols: exp, log, pow (=exp(e*log b)), sqrt, abs (only when sign is
syntactically known), lgamma/digamma (opaque), and arbitrary uninterpreted functions.
"""
from __future__ import annotations

import math
from fractions import Fraction as Q
from typing import Dict, Tuple, Iterable

# --------------------------------------------------------------------------------------
# atoms


class AtomTable:
    def __init__(self):
        self.atoms = []  # list of (kind, payload)
        self.index = {}
        self.positive = []  # syntactically known > 0
        self.nonneg = []

    def get(self, kind, payload, positive=False, nonneg=False):
        key = (kind, payload)
        i = self.index.get(key)
        if i is None:
            i = len(self.atoms)
            self.atoms.append(key)
            self.index[key] = i
            self.positive.append(bool(positive))
            self.nonneg.append(bool(nonneg or positive))
        else:
            if positive:
                self.positive[i] = True
                self.nonneg[i] = True
        return i

    def reset(self):
        self.__init__()


ATOMS = AtomTable()
SIDE = []  # side conditions: ('pos', RF) | ('nonzero', RF) recorded during construction


def reset():
    ATOMS.reset()
    SIDE.clear()
    _CONST_CACHE.clear()
    _FN_ARGS.clear()
    ATOMS_HAS_ROOT[0] = False


# --------------------------------------------------------------------------------------
# polynomials: dict {monomial: Q}; monomial = tuple of (atom id, exponent) sorted by id

Mono = Tuple[Tuple[int, Q], ...]
ONE_M: Mono = ()


def _mmul(a: Mono, b: Mono) -> Mono:
    if not a:
        return b
    if not b:
        return a
    out = []
    i = j = 0
    la, lb = len(a), len(b)
    while i < la and j < lb:
        x, y = a[i], b[j]
        if x[0] == y[0]:
            e = x[1] + y[1]
            if e != 0:
                out.append((x[0], e))
            i += 1
            j += 1
        elif x[0] < y[0]:
            out.append(x)
            i += 1
        else:
            out.append(y)
            j += 1
    if i < la:
        out.extend(a[i:])
    if j < lb:
        out.extend(b[j:])
    return tuple(out)


def _mpow(a: Mono, k) -> Mono:
    if k == 0:
        return ONE_M
    return tuple((i, e * k) for i, e in a)


def _minv(a: Mono) -> Mono:
    return tuple((i, -e) for i, e in a)


class Poly:
    __slots__ = ("t", "_h", "_content", "_canon")

    def __init__(self, terms: Dict[Mono, Q]):
        self.t = terms
        self._h = None
        self._content = None
        self._canon = False

    @staticmethod
    def const(c) -> "Poly":
        c = Q(c)
        return Poly({ONE_M: c}) if c != 0 else Poly({})

    def key(self):
        return tuple(sorted(self.t.items()))

    def __hash__(self):
        if self._h is None:
            self._h = hash(frozenset(self.t.items()))
        return self._h

    def __eq__(self, o):
        return isinstance(o, Poly) and self.t == o.t

    def is_zero(self):
        return not self.t

    def is_one(self):
        return len(self.t) == 1 and self.t.get(ONE_M) == 1

    def is_const(self):
        return not self.t or (len(self.t) == 1 and ONE_M in self.t)

    def const_value(self):
        return self.t.get(ONE_M, Q(0))

    def __len__(self):
        return len(self.t)

    def add(self, o: "Poly") -> "Poly":
        if not o.t:
            return self
        if not self.t:
            return o
        a, b = (self.t, o.t) if len(self.t) >= len(o.t) else (o.t, self.t)
        r = dict(a)
        for m, c in b.items():
            v = r.get(m)
            if v is None:
                r[m] = c
            else:
                v = v + c
                if v == 0:
                    del r[m]
                else:
                    r[m] = v
        return Poly(r)

    def neg(self) -> "Poly":
        return Poly({m: -c for m, c in self.t.items()})

    def sub(self, o):
        return self.add(o.neg())

    def scale(self, c) -> "Poly":
        if c == 0:
            return Poly({})
        if c == 1:
            return self
        return Poly({m: v * c for m, v in self.t.items()})

    def mul_mono(self, mm: Mono, c=1) -> "Poly":
        if c == 0:
            return Poly({})
        if not mm and c == 1:
            return self
        return Poly({_mmul(m, mm): v * c for m, v in self.t.items()})

    def mul(self, o: "Poly") -> "Poly":
        if not self.t or not o.t:
            return Poly({})
        if o.is_one():
            return self
        if self.is_one():
            return o
        a, b = (self.t, o.t) if len(self.t) >= len(o.t) else (o.t, self.t)
        if len(b) == 1:
            (mm, c), = b.items()
            return Poly({_mmul(m, mm): v * c for m, v in a.items()})
        r = {}
        for m1, c1 in b.items():
            for m2, c2 in a.items():
                m = _mmul(m1, m2)
                v = r.get(m)
                c = c1 * c2
                if v is None:
                    r[m] = c
                else:
                    v = v + c
                    if v == 0:
                        del r[m]
                    else:
                        r[m] = v
        return Poly(r)

    def atoms(self):
        s = set()
        for m in self.t:
            for i, _ in m:
                s.add(i)
        return s

    def content(self):
        """(c, mono, prim) with self = c*mono*prim, prim has min exponents 0 per atom and
        coefficient content 1 (positive gcd)."""
        if self._content is not None:
            return self._content
        r = self._content_compute()
        self._content = r
        return r

    def _content_compute(self):
        if not self.t:
            return Q(0), ONE_M, self
        allat = self.atoms()
        mins = {}
        for i in allat:
            mn = None
            for m in self.t:
                e = 0
                for j, ee in m:
                    if j == i:
                        e = ee
                        break
                if mn is None or e < mn:
                    mn = e
            if mn != 0:
                mins[i] = mn
        mono = tuple(sorted(mins.items()))
        g_num = 0
        g_den = 1
        for c in self.t.values():
            g_num = math.gcd(g_num, abs(c.numerator))
            g_den = g_den * c.denominator // math.gcd(g_den, c.denominator)
        c = Q(g_num, g_den)
        inv = _minv(mono)
        prim = Poly({_mmul(m, inv): v / c for m, v in self.t.items()})
        return c, mono, prim


ZERO_P = Poly({})
ONE_P = Poly({ONE_M: Q(1)})


def _lead(p: Poly):
    """leading term under a fixed total order on monomials (after shifting to non-neg exps)."""
    return max(p.t.items(), key=lambda kv: _mkey(kv[0]))


def _mkey(m: Mono):
    # graded lex: total degree then lex on (atom id, exp)
    return (sum(e for _, e in m), m)


def try_divide(num: Poly, den: Poly, limit=4000):
    """Exact division num/den if den | num (as generalised polynomials); else None."""
    if den.is_one():
        return num
    if not num.t:
        return num
    if len(den.t) == 1:
        (m, c), = den.t.items()
        return num.mul_mono(_minv(m), 1 / c)
    if len(den.t) > len(num.t) * 4 + 4:
        pass
    # shift both to non-negative exponents via content
    cn, mn, pn = num.content()
    cd, md, pd = den.content()
    if len(pd.t) == 1:
        (m, c), = pd.t.items()
        q = pn.mul_mono(_minv(m), 1 / c)
    else:
        # multivariate division with graded-lex order
        lm, lc = _lead(pd)
        q = {}
        r = pn
        steps = 0
        while r.t:
            steps += 1
            if steps > limit:
                return None
            rm, rc = _lead(r)
            dm = _mmul(rm, _minv(lm))
            if any(e < 0 for _, e in dm):
                return None
            c = rc / lc
            q[dm] = q.get(dm, 0) + c
            r = r.sub(pd.mul_mono(dm, c))
        q = Poly({m: c for m, c in q.items() if c != 0})
    return q.mul_mono(_mmul(mn, _minv(md)), cn / cd)


# --------------------------------------------------------------------------------------
# rational functions


class RF:
    __slots__ = ("n", "d", "_h", "_inv")
    __array_priority__ = 1000

    def __init__(self, n: Poly, d: Poly = ONE_P, _norm=True):
        if _norm:
            n, d = _normalise(n, d)
        self.n = n
        self.d = d
        self._h = None
        self._inv = None

    # --- construction helpers
    @staticmethod
    def const(c) -> "RF":
        return const(c)

    def key(self):
        return (self.n.key(), self.d.key())

    def __hash__(self):
        if self._h is None:
            self._h = hash((hash(self.n), hash(self.d)))
        return self._h

    def same(self, o) -> bool:
        """syntactic identity of normal forms (fast path)"""
        return self.n == o.n and self.d == o.d

    def is_const(self):
        return self.d.is_one() and self.n.is_const()

    def const_value(self):
        assert self.is_const()
        return self.n.const_value()

    def is_zero(self):
        return self.n.is_zero()

    # --- arithmetic
    def __add__(self, o):
        o = as_rf(o)
        if o is NotImplemented:
            return NotImplemented
        if o.n.is_zero():
            return self
        if self.n.is_zero():
            return o
        if self.d == o.d:
            return RF(self.n.add(o.n), self.d)
        if self.d.is_one():
            return RF(self.n.mul(o.d).add(o.n), o.d)
        if o.d.is_one():
            return RF(self.n.add(o.n.mul(self.d)), self.d)
        q = try_divide(self.d, o.d) if len(self.d.t) >= len(o.d.t) else None
        if q is not None:
            return RF(self.n.add(o.n.mul(q)), self.d)
        q = try_divide(o.d, self.d) if len(o.d.t) >= len(self.d.t) else None
        if q is not None:
            return RF(self.n.mul(q).add(o.n), o.d)
        return RF(self.n.mul(o.d).add(o.n.mul(self.d)), self.d.mul(o.d))

    __radd__ = __add__

    def __neg__(self):
        return RF(self.n.neg(), self.d, _norm=False)

    def __pos__(self):
        return self

    def __sub__(self, o):
        o = as_rf(o)
        if o is NotImplemented:
            return NotImplemented
        return self + (-o)

    def __rsub__(self, o):
        o = as_rf(o)
        if o is NotImplemented:
            return NotImplemented
        return o + (-self)

    def __mul__(self, o):
        o = as_rf(o)
        if o is NotImplemented:
            return NotImplemented
        if self.n.is_zero() or o.n.is_zero():
            return ZERO
        if self.d.is_one() and o.d.is_one():
            return RF(self.n.mul(o.n), ONE_P, _norm=False)
        # cross-cancel identical factors
        if self.d == o.n:
            return RF(self.n, o.d)
        if o.d == self.n:
            return RF(o.n, self.d)
        return RF(self.n.mul(o.n), self.d.mul(o.d))

    __rmul__ = __mul__

    def inv(self):
        if self.n.is_zero():
            raise ZeroDivisionError("symbolic division by syntactic zero")
        if self._inv is not None:
            return self._inv
        if not self.is_const():
            SIDE.append(("nonzero", self))
        r = RF(self.d, self.n)
        self._inv = r
        return r

    def __truediv__(self, o):
        o = as_rf(o)
        if o is NotImplemented:
            return NotImplemented
        if o.is_const():
            c = o.const_value()
            if c == 0:
                raise ZeroDivisionError("symbolic division by zero constant")
            return RF(self.n.scale(1 / c), self.d, _norm=False)
        return self * o.inv()

    def __rtruediv__(self, o):
        o = as_rf(o)
        if o is NotImplemented:
            return NotImplemented
        return o * self.inv()

    def __pow__(self, k):
        if isinstance(k, RF) and k.is_const():
            k = k.const_value()
        if isinstance(k, float):
            kk = Q(k)
            k = kk
        if isinstance(k, Q) and k.denominator == 1:
            k = int(k)
        if isinstance(k, int):
            if k == 0:
                return ONE
            if k < 0:
                return (self.inv()) ** (-k)
            # monomial fast path
            if self.d.is_one() and len(self.n.t) == 1:
                (m, c), = self.n.t.items()
                return RF(Poly({_mpow(m, k): c ** k}), ONE_P, _norm=False)
            r = ONE
            b = self
            kk = k
            while kk:
                if kk & 1:
                    r = r * b
                kk >>= 1
                if kk:
                    b = b * b
            return r
        return rpow(self, k)

    def __rpow__(self, b):
        return rpow(as_rf(b), self)

    # comparisons produce Cond objects (see cond.py); imported lazily
    def __lt__(self, o):
        from .cond import Cond
        return Cond.make(self - as_rf(o), "<")

    def __le__(self, o):
        from .cond import Cond
        return Cond.make(self - as_rf(o), "<=")

    def __gt__(self, o):
        from .cond import Cond
        return Cond.make(as_rf(o) - self, "<")

    def __ge__(self, o):
        from .cond import Cond
        return Cond.make(as_rf(o) - self, "<=")

    def __eq__(self, o):
        if isinstance(o, RF):
            if self.same(o):
                return True
        from .cond import Cond
        oo = as_rf(o)
        if oo is NotImplemented:
            return False
        return Cond.make(self - oo, "==")

    def __ne__(self, o):
        r = self.__eq__(o)
        if r is True:
            return False
        if r is False:
            return True
        return r.negate()

    def __bool__(self):
        # truthiness of a number: x != 0
        if self.is_const():
            return self.const_value() != 0
        from .cond import Cond
        return bool(Cond.make(self, "!="))

    def __float__(self):
        if self.is_const():
            return float(self.const_value())
        raise TypeError("symbolic value has no float: %s" % show(self))

    def __int__(self):
        if self.is_const():
            return int(self.const_value())
        raise TypeError("symbolic value has no int: %s" % show(self))

    def __abs__(self):
        return rabs(self)

    def __repr__(self):
        return "RF(%s)" % show(self)

    def atoms(self):
        return self.n.atoms() | self.d.atoms()


def _normalise(n: Poly, d: Poly):
    if n.is_zero():
        return ZERO_P, ONE_P
    if d.is_one():
        return n, d
    if len(d.t) == 1:
        (m, c), = d.t.items()
        return n.mul_mono(_minv(m), 1 / c), ONE_P
    if n == d:
        return ONE_P, ONE_P
    if d._canon:
        if len(n.t) >= len(d.t):
            q = try_divide(n, d)
            if q is not None:
                return q, ONE_P
        return n, d
    # make denominator primitive, move its content to numerator
    c, m, prim = d.content()
    # sign: make leading coefficient of prim positive
    lm, lc = _lead(prim)
    if lc < 0:
        prim = prim.neg()
        c = -c
    if c != 1 or m:
        n = n.mul_mono(_minv(m), 1 / c)
        d = prim
    d._canon = True
    if n == d:
        return ONE_P, ONE_P
    if len(n.t) >= len(d.t):
        q = try_divide(n, d)
        if q is not None:
            return q, ONE_P
    return n, d


_CONST_CACHE = {}


def rationalise(f: float, bits=52) -> Q:
    """float literal -> rational.  Assumption (reported): a float constant that lies within
    one rounding error of a rational with denominator <= 10^6 denotes that rational
    (fl(1/6) means 1/6, fl(0.1) means 1/10); any other float denotes its exact binary value."""
    q = Q(f)
    if q.denominator <= (1 << 20):
        return q
    r = q.limit_denominator(10 ** 6)
    if abs(r - q) <= abs(q) * Q(1, 1 << bits):
        return r
    return q


def const(c) -> RF:
    if isinstance(c, RF):
        return c
    if isinstance(c, bool):
        c = int(c)
    if isinstance(c, float):
        if c != c or c in (float("inf"), float("-inf")):
            raise ValueError("non-finite constant in symbolic arithmetic: %r" % c)
        c = rationalise(c)
    elif not isinstance(c, (int, Q)):
        c = Q(c)
    r = _CONST_CACHE.get(c)
    if r is None:
        r = RF(Poly.const(c), ONE_P, _norm=False)
        _CONST_CACHE[c] = r
    return r


def as_rf(x):
    if isinstance(x, RF):
        return x
    if isinstance(x, (int, float, Q, bool)):
        return const(x)
    try:
        import numpy as _np
        if isinstance(x, (_np.integer,)):
            return const(int(x))
        if isinstance(x, (_np.floating,)):
            return const(float(x))
    except Exception:
        pass
    return NotImplemented


ZERO = RF(ZERO_P, ONE_P, _norm=False)
ONE = RF(ONE_P, ONE_P, _norm=False)


def atom_rf(i: int, e=1) -> RF:
    return RF(Poly({((i, Q(e) if not isinstance(e, int) else e),): Q(1)}), ONE_P, _norm=False)


def var(name: str, positive=False, nonneg=False) -> RF:
    return atom_rf(ATOMS.get("var", name, positive=positive, nonneg=nonneg))


def ufn(name: str, *args, positive=False, nonneg=False) -> RF:
    """uninterpreted function application (args: RF or hashable constants)"""
    args = tuple(simplify(a) if isinstance(a, RF) else a for a in args)
    ka = tuple(a.key() if isinstance(a, RF) else ("c", a) for a in args)
    i = ATOMS.get("fn", (name, ka), positive=positive, nonneg=nonneg)
    _FN_ARGS[i] = args
    return atom_rf(i)


_FN_ARGS = {}


def is_zero(x: RF) -> bool:
    return simplify(x).n.is_zero()


def simplify(x: RF) -> RF:
    if ATOMS_HAS_ROOT[0]:
        return _reduce_roots(x)
    return x


ATOMS_HAS_ROOT = [False]


def equal(a, b) -> bool:
    """a ≡ b as rational functions in the atoms."""
    a = simplify(as_rf(a))
    b = simplify(as_rf(b))
    if a.same(b):
        return True
    if a.d == b.d:
        return a.n == b.n
    return a.n.mul(b.d) == b.n.mul(a.d)


# --------------------------------------------------------------------------------------
# positivity (syntactic)


def mono_positive(m: Mono) -> bool:
    return all(ATOMS.positive[i] for i, _ in m)


def poly_positive(p: Poly) -> bool:
    """sufficient: all coefficients > 0 and all atoms positive"""
    if not p.t:
        return False
    for m, c in p.t.items():
        if c <= 0:
            return False
        if not mono_positive(m):
            # even integer powers of arbitrary atoms are non-negative, not positive; be strict
            return False
    return True


def poly_nonneg(p: Poly) -> bool:
    for m, c in p.t.items():
        if c < 0:
            return False
        for i, e in m:
            if ATOMS.nonneg[i]:
                continue
            if isinstance(e, int) and e % 2 == 0:
                continue
            if isinstance(e, Q) and e.denominator == 1 and e.numerator % 2 == 0:
                continue
            return False
    return True


def rf_positive(x: RF) -> bool:
    if x.d.is_one():
        return poly_positive(x.n)
    return (poly_positive(x.n) and poly_positive(x.d)) or (
        poly_positive(x.n.neg()) and poly_positive(x.d.neg()))


def rf_negative(x: RF) -> bool:
    return rf_positive(-x)


def rf_nonneg(x: RF) -> bool:
    if rf_positive(x):
        return True
    return poly_nonneg(x.n) and (x.d.is_one() or poly_positive(x.d))


# --------------------------------------------------------------------------------------
# interpreted functions

E_ATOM = None


def _exp_atom(mono: Mono, den: Poly = None) -> int:
    """atom for exp(mono) or exp(mono/den)"""
    payload = (mono, den.key() if den is not None else None)
    i = ATOMS.get("exp", payload, positive=True)
    _FN_ARGS[i] = (mono, den)
    return i


def _log_atom(x: RF) -> int:
    i = ATOMS.get("log", x.key())
    _FN_ARGS[i] = (x,)
    return i


def _root_atom(x: RF) -> int:
    """atom r with r = x (x>0 composite); used only with fractional exponents in (0,1)"""
    ATOMS_HAS_ROOT[0] = True
    i = ATOMS.get("root", x.key(), positive=True)
    _FN_ARGS[i] = (x,)
    return i


def _small_factor(n: int):
    f = {}
    p = 2
    while p * p <= n and p < 2000:
        while n % p == 0:
            f[p] = f.get(p, 0) + 1
            n //= p
        p += 1 if p == 2 else 2
    if n > 1:
        f[n] = f.get(n, 0) + 1
    return f


def _log_const(c: Q) -> RF:
    if c <= 0:
        raise ValueError("log of non-positive constant %s" % c)
    if c == 1:
        return ZERO
    if c.numerator < 10 ** 7 and c.denominator < 10 ** 7:
        r = ZERO
        for p, e in _small_factor(c.numerator).items():
            r = r + atom_rf(ATOMS.get("logc", Q(p), positive=(p > 1))) * e
        for p, e in _small_factor(c.denominator).items():
            r = r - atom_rf(ATOMS.get("logc", Q(p), positive=(p > 1))) * e
        return r
    # power of two denominators / numerators from floats: split 2-adic part
    n, d = c.numerator, c.denominator
    k = 0
    while d % 2 == 0:
        d //= 2
        k -= 1
    while n % 2 == 0:
        n //= 2
        k += 1
    r = atom_rf(ATOMS.get("logc", Q(2), positive=True)) * k if k else ZERO
    rest = Q(n, d)
    if rest != 1:
        r = r + atom_rf(ATOMS.get("logc", rest))
    return r


def _log_mono(m: Mono) -> RF:
    """log of a product of atoms with exponents (each atom must be positive)."""
    r = ZERO
    for i, e in m:
        kind, payload = ATOMS.atoms[i]
        if kind == "exp":
            mono, den = _FN_ARGS[i]
            arg = RF(Poly({mono: Q(1)}), den if den is not None else ONE_P)
            r = r + arg * e
        elif kind == "root":
            (x,) = _FN_ARGS[i]
            r = r + rlog(x) * e
        else:
            if not ATOMS.positive[i]:
                SIDE.append(("pos", atom_rf(i)))
            r = r + atom_rf(_log_atom(atom_rf(i))) * e
    return r


def rlog(x) -> RF:
    x = as_rf(x)
    if x.is_const():
        return _log_const(x.const_value())
    if not x.d.is_one():
        # log(n/d) = log n - log d  (valid when both positive; we know n/d > 0 is required.
        # If d is syntactically positive this is sound; otherwise record the condition.)
        if not poly_positive(x.d):
            SIDE.append(("pos", RF(x.d)))
        return rlog(RF(x.n)) - rlog(RF(x.d))
    c, m, prim = x.n.content()
    if len(prim.t) == 1:
        # single term: prim is the constant 1 (sign in c)
        pc = prim.const_value()
        c = c * pc
        if c <= 0:
            raise ValueError("log of non-positive term")
        return _log_const(c) + _log_mono(m)
    # composite: log(c * m * prim); c>0 by construction of content(); need m>0 to split
    r = _log_const(c) if c != 1 else ZERO
    if m:
        r = r + _log_mono(m)
    p = RF(prim)
    if not poly_positive(prim):
        SIDE.append(("pos", p))
    return r + atom_rf(_log_atom(p))


def rexp(x) -> RF:
    x = simplify(as_rf(x))     # canonical w.r.t. root atoms: exp atoms are identified by their argument
    if x.n.is_zero():
        return ONE
    den = None if x.d.is_one() else x.d
    r = ONE
    for m, c in x.n.t.items():
        if not m and den is None:
            # exp(c) = e^c
            r = r * atom_rf(ATOMS.get("e", None, positive=True), c)
            continue
        if den is None and len(m) == 1 and m[0][1] == 1:
            i = m[0][0]
            kind, payload = ATOMS.atoms[i]
            if kind == "log":
                (a,) = _FN_ARGS[i]
                r = r * _pow_const(a, c)
                continue
            if kind == "logc":
                r = r * _pow_const(const(payload), c)
                continue
        r = r * atom_rf(_exp_atom(m, den), c)
    return r


def _pow_const(a: RF, c: Q) -> RF:
    """a^c for a>0 (a is the argument of a log atom or a positive constant), c rational."""
    c = Q(c)
    if c.denominator == 1:
        return a ** int(c)
    if a.is_const():
        v = a.const_value()
        # perfect powers
        num = _iroot(v.numerator, c.denominator)
        den = _iroot(v.denominator, c.denominator)
        if num is not None and den is not None:
            return const(Q(num, den)) ** c.numerator
        i = ATOMS.get("cpow", (v, Q(1, c.denominator)), positive=True)
        return atom_rf(i, c.numerator)
    if a.d.is_one() and len(a.n.t) == 1:
        (m, k), = a.n.t.items()
        if mono_positive(m) or True:
            # a = k*m with k>0: a^c = k^c * m^c
            return _pow_const(const(k), c) * RF(Poly({_mpow(m, c): Q(1)}), ONE_P, _norm=False)
    if not a.d.is_one():
        return _pow_const(RF(a.n), c) / _pow_const(RF(a.d), c)
    cc, m, prim = a.n.content()
    ip = c.numerator // c.denominator
    frac = c - ip
    r = _pow_const(const(cc), c) * RF(Poly({_mpow(m, c): Q(1)}), ONE_P, _norm=False)
    p = RF(prim)
    r = r * (p ** ip) * atom_rf(_root_atom(p), frac)
    return r


def _iroot(n: int, k: int):
    if n < 0:
        return None
    if n in (0, 1):
        return n
    r = round(n ** (1.0 / k))
    for cand in (r - 1, r, r + 1):
        if cand >= 0 and cand ** k == n:
            return cand
    return None


def _reduce_roots(x: RF) -> RF:
    """rewrite root atoms whose exponent left [0,1): r^(k+f) = x^k r^f."""
    # done lazily in mul via post-pass; called by rpow/rsqrt users and by equal() when needed
    changed = False

    def fix_poly(p: Poly):
        nonlocal changed
        out = ZERO
        for m, c in p.t.items():
            term = const(c)
            rest = []
            for i, e in m:
                if ATOMS.atoms[i][0] == "root" and (e >= 1 or e < 0):
                    (a,) = _FN_ARGS[i]
                    ip = math.floor(e)
                    fr = e - ip
                    term = term * (a ** int(ip))
                    if fr != 0:
                        rest.append((i, fr))
                    changed = True
                else:
                    rest.append((i, e))
            term = term * RF(Poly({tuple(rest): Q(1)}), ONE_P, _norm=False)
            out = out + term
        return out

    n = fix_poly(x.n)
    d = fix_poly(x.d) if not x.d.is_one() else ONE
    if not changed:
        return x
    return _reduce_roots(n / d)


def rpow(b, e) -> RF:
    b = as_rf(b)
    e = as_rf(e)
    if e.is_const():
        c = e.const_value()
        if c.denominator == 1:
            return b ** int(c)
        if not rf_positive(b) and not b.is_const():
            SIDE.append(("pos", b))
        return _reduce_roots(_pow_const(b, c))
    # general: exp(e * log b)
    return rexp(e * rlog(b))


def rsqrt(x) -> RF:
    return rpow(x, Q(1, 2))


def rabs(x) -> RF:
    x = as_rf(x)
    if x.is_const():
        return const(abs(x.const_value()))
    if rf_nonneg(x):
        return x
    if rf_nonneg(-x):
        return -x
    from .cond import Cond
    if bool(Cond.make(x, "<")):
        return -x
    return x


def rlgamma(x) -> RF:
    x = as_rf(x)
    if x.is_const():
        v = x.const_value()
        if v.denominator == 1 and 0 < v < 60:
            return _log_const(Q(math.factorial(int(v) - 1)))
    return ufn("lgamma", x)


def rdigamma(x) -> RF:
    return ufn("digamma", as_rf(x))


# --------------------------------------------------------------------------------------
# evaluation, printing, substitution, differentiation


def evaluate(x: RF, env: dict, fns: dict = None, mp=None):
    """numeric value; env maps var name -> number; fns maps ufn name -> python callable.
    mp: mpmath module for extended precision (else floats via math)."""
    M = mp if mp is not None else math
    cache = {}

    def num(c):
        if mp is not None:
            return mp.mpf(c.numerator) / mp.mpf(c.denominator)
        return c.numerator / c.denominator

    def atom_val(i):
        if i in cache:
            return cache[i]
        kind, payload = ATOMS.atoms[i]
        if kind == "var":
            v = env[payload]
            if isinstance(v, Q):
                v = num(v)
        elif kind == "e":
            v = M.exp(1) if mp is None else mp.e
        elif kind == "exp":
            mono, den = _FN_ARGS[i]
            a = mono_val(mono)
            if den is not None:
                a = a / poly_val(den)
            v = M.exp(a)
        elif kind == "log":
            (a,) = _FN_ARGS[i]
            v = M.log(rf_val(a))
        elif kind == "logc":
            v = M.log(num(payload))
        elif kind == "cpow":
            base, ex = payload
            v = num(base) ** num(ex)
        elif kind == "root":
            (a,) = _FN_ARGS[i]
            v = rf_val(a)
        elif kind == "fn":
            name, _ = payload
            args = _FN_ARGS[i]
            vals = [rf_val(a) if isinstance(a, RF) else a for a in args]
            if name == "lgamma":
                v = (math.lgamma(vals[0]) if mp is None else mp.loggamma(vals[0]))
            elif name == "digamma":
                if mp is None:
                    import mpmath
                    v = float(mpmath.digamma(vals[0]))
                else:
                    v = mp.digamma(vals[0])
            else:
                v = fns[name](*vals)
        else:
            raise KeyError(kind)
        cache[i] = v
        return v

    def mono_val(m):
        r = 1
        for i, e in m:
            a = atom_val(i)
            if isinstance(e, int) or e.denominator == 1:
                r = r * a ** int(e)
            else:
                r = r * a ** num(e)
        return r

    def poly_val(p):
        s = 0
        for m, c in p.t.items():
            s = s + num(c) * mono_val(m)
        return s

    def rf_val(r):
        if r.d.is_one():
            return poly_val(r.n)
        return poly_val(r.n) / poly_val(r.d)

    return rf_val(x)


def atom_name(i):
    kind, payload = ATOMS.atoms[i]
    if kind == "var":
        return payload
    if kind == "e":
        return "e"
    if kind == "exp":
        mono, den = _FN_ARGS[i]
        s = _show_mono(mono)
        if den is not None:
            s = "(%s)/(%s)" % (s, _show_poly(den))
        return "exp(%s)" % s
    if kind == "log":
        return "log(%s)" % show(_FN_ARGS[i][0])
    if kind == "logc":
        return "log(%s)" % payload
    if kind == "cpow":
        return "(%s)^(%s)" % payload
    if kind == "root":
        return "root[%s]" % show(_FN_ARGS[i][0])
    if kind == "fn":
        return "%s(%s)" % (payload[0], ",".join(show(a) if isinstance(a, RF) else str(a) for a in _FN_ARGS[i]))
    return "?"


def _show_mono(m):
    if not m:
        return "1"
    return "*".join(atom_name(i) + ("" if e == 1 else "^%s" % e) for i, e in m)


def _show_poly(p, limit=12):
    if not p.t:
        return "0"
    items = sorted(p.t.items(), key=lambda kv: _mkey(kv[0]))
    out = []
    for m, c in items[:limit]:
        if not m:
            out.append(str(c))
        elif c == 1:
            out.append(_show_mono(m))
        else:
            out.append("%s*%s" % (c, _show_mono(m)))
    if len(items) > limit:
        out.append("...(%d terms)" % len(items))
    return " + ".join(out)


def show(x, limit=12) -> str:
    if not isinstance(x, RF):
        return repr(x)
    if x.d.is_one():
        return _show_poly(x.n, limit)
    return "(%s)/(%s)" % (_show_poly(x.n, limit), _show_poly(x.d, limit))


def variables(x: RF):
    """names of all variable atoms reachable from x (through function arguments)."""
    seen = set()
    out = set()

    def visit_atom(i):
        if i in seen:
            return
        seen.add(i)
        kind, payload = ATOMS.atoms[i]
        if kind == "var":
            out.add(payload)
        elif kind == "exp":
            mono, den = _FN_ARGS[i]
            for j, _ in mono:
                visit_atom(j)
            if den is not None:
                for j in den.atoms():
                    visit_atom(j)
        elif kind in ("log", "root"):
            for j in _FN_ARGS[i][0].atoms():
                visit_atom(j)
        elif kind == "fn":
            for a in _FN_ARGS[i]:
                if isinstance(a, RF):
                    for j in a.atoms():
                        visit_atom(j)

    for i in x.atoms():
        visit_atom(i)
    return out


def all_atoms(x: RF):
    """ids of all atoms reachable from x"""
    seen = set()

    def visit_atom(i):
        if i in seen:
            return
        seen.add(i)
        kind, payload = ATOMS.atoms[i]
        if kind == "exp":
            mono, den = _FN_ARGS[i]
            for j, _ in mono:
                visit_atom(j)
            if den is not None:
                for j in den.atoms():
                    visit_atom(j)
        elif kind in ("log", "root"):
            for j in _FN_ARGS[i][0].atoms():
                visit_atom(j)
        elif kind == "fn":
            for a in _FN_ARGS[i]:
                if isinstance(a, RF):
                    for j in a.atoms():
                        visit_atom(j)

    for i in x.atoms():
        visit_atom(i)
    return seen


def subst(x: RF, mapping: dict) -> RF:
    """substitute variable names -> RF, rebuilding interpreted atoms through their
    constructors (so rewrite rules fire again)."""
    cache = {}

    def atom_sub(i) -> RF:
        if i in cache:
            return cache[i]
        kind, payload = ATOMS.atoms[i]
        if kind == "var":
            r = mapping.get(payload)
            r = atom_rf(i) if r is None else as_rf(r)
        elif kind in ("e", "logc", "cpow"):
            r = atom_rf(i)
        elif kind == "exp":
            mono, den = _FN_ARGS[i]
            a = mono_sub(mono)
            if den is not None:
                a = a / poly_sub(den)
            r = rexp(a)
        elif kind == "log":
            r = rlog(rf_sub(_FN_ARGS[i][0]))
        elif kind == "root":
            # atom stands for the value a itself (used with fractional exponents)
            r = None  # handled in mono_sub
        elif kind == "fn":
            name, _ = payload
            args = [rf_sub(a) if isinstance(a, RF) else a for a in _FN_ARGS[i]]
            if name == "lgamma":
                r = rlgamma(args[0])
            else:
                r = ufn(name, *args, positive=ATOMS.positive[i], nonneg=ATOMS.nonneg[i])
        else:
            raise KeyError(kind)
        cache[i] = r
        return r

    def mono_sub(m) -> RF:
        r = ONE
        for i, e in m:
            if ATOMS.atoms[i][0] == "root":
                a = rf_sub(_FN_ARGS[i][0])
                r = r * rpow(a, e)
                continue
            a = atom_sub(i)
            if isinstance(e, int) or e.denominator == 1:
                r = r * a ** int(e)
            else:
                r = r * rpow(a, e)
        return r

    def poly_sub(p) -> RF:
        s = ZERO
        for m, c in p.t.items():
            s = s + mono_sub(m) * c
        return s

    def rf_sub(r) -> RF:
        if r.d.is_one():
            return poly_sub(r.n)
        return poly_sub(r.n) / poly_sub(r.d)

    return rf_sub(x)


def unwrap(x: RF, fname: str = "sg") -> RF:
    """replace every application fname(a) by a (stop-gradient ghost -> identity)"""
    cache = {}

    def atom_sub(i) -> RF:
        if i in cache:
            return cache[i]
        kind, payload = ATOMS.atoms[i]
        if kind in ("var", "e", "logc", "cpow"):
            r = atom_rf(i)
        elif kind == "exp":
            mono, den = _FN_ARGS[i]
            a = mono_sub(mono)
            if den is not None:
                a = a / poly_sub(den)
            r = rexp(a)
        elif kind == "log":
            r = rlog(rf_sub(_FN_ARGS[i][0]))
        elif kind == "root":
            r = None
        elif kind == "fn":
            name, _ = payload
            args = [rf_sub(a) if isinstance(a, RF) else a for a in _FN_ARGS[i]]
            if name == fname:
                r = args[0]
            elif name == "lgamma":
                r = rlgamma(args[0])
            else:
                r = ufn(name, *args, positive=ATOMS.positive[i], nonneg=ATOMS.nonneg[i])
        else:
            raise KeyError(kind)
        cache[i] = r
        return r

    def mono_sub(m) -> RF:
        r = ONE
        for i, e in m:
            if ATOMS.atoms[i][0] == "root":
                r = r * rpow(rf_sub(_FN_ARGS[i][0]), e)
                continue
            a = atom_sub(i)
            if isinstance(e, int) or e.denominator == 1:
                r = r * a ** int(e)
            else:
                r = r * rpow(a, e)
        return r

    def poly_sub(p) -> RF:
        s_ = ZERO
        for m, c in p.t.items():
            s_ = s_ + mono_sub(m) * c
        return s_

    def rf_sub(r) -> RF:
        if r.d.is_one():
            return poly_sub(r.n)
        return poly_sub(r.n) / poly_sub(r.d)

    return rf_sub(x)


def has_fn(x: RF, fname: str) -> bool:
    return any(ATOMS.atoms[i][0] == "fn" and ATOMS.atoms[i][1][0] == fname for i in all_atoms(x))


def diff(x: RF, vname: str) -> RF:
    """∂x/∂v for variable v (chain rule through atoms)."""
    cache = {}

    def datom(i) -> RF:
        if i in cache:
            return cache[i]
        kind, payload = ATOMS.atoms[i]
        if kind == "var":
            r = ONE if payload == vname else ZERO
        elif kind in ("e", "logc", "cpow"):
            r = ZERO
        elif kind == "exp":
            mono, den = _FN_ARGS[i]
            a = RF(Poly({mono: Q(1)}), den if den is not None else ONE_P)
            r = atom_rf(i) * drf(a)
        elif kind == "log":
            a = _FN_ARGS[i][0]
            r = drf(a) / a
        elif kind == "root":
            a = _FN_ARGS[i][0]
            r = drf(a)  # atom denotes a itself
        elif kind == "fn":
            name, _ = payload
            args = _FN_ARGS[i]
            r = ZERO
            for k, a in enumerate(args):
                if not isinstance(a, RF):
                    continue
                da = drf(a)
                if da.is_zero():
                    continue
                if name == "lgamma":
                    r = r + rdigamma(a) * da
                elif name == "sg":
                    pass  # stop-gradient: derivative cut
                else:
                    r = r + ufn("D%d_%s" % (k, name), *args) * da
        else:
            raise KeyError(kind)
        cache[i] = r
        return r

    def dpoly(p) -> RF:
        s = ZERO
        for m, c in p.t.items():
            for k, (i, e) in enumerate(m):
                di = datom(i)
                if di.is_zero():
                    continue
                rest = m[:k] + (((i, e - 1),) if e != 1 else ()) + m[k + 1:]
                s = s + RF(Poly({rest: c * e}), ONE_P, _norm=False) * di
        return s

    def drf(r) -> RF:
        if r.d.is_one():
            return dpoly(r.n)
        n, d = RF(r.n), RF(r.d)
        return (dpoly(r.n) * d - n * dpoly(r.d)) / (d * d)

    return drf(x)
