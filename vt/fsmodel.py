"""vt.fsmodel — ghost file-system image, assumed POSIX contracts, crash injection (DESIGN 2.4, A.3).

The function under verification is the *real* function object.  For the duration of one run the
names `open`, `json`, `os` (and any `from os import rename`-style aliases) are replaced **in the
namespace of the module that defines it** by contract stubs.  Two families of stubs share one event
accounting, so that a crash point found in the abstract run can be re-played on real files:

  GhostFS  the stubs act on a ghost image  path -> absent | complete(v) | partial(v) | mixed
           whose contents v are opaque tokens (compared by identity only: the code under test may
           move contents around but can never look inside — any read is `Undecided`).
  RealFS   the stubs call the real `open` / `os.*` on a real directory and only count events; a
           `json.dump` is performed as `steps` partial writes of the real JSON text.

Assumed contracts (the trusted base of every obligation that uses this module):
  open(p,'w')        creates p or truncates it to empty, atomically            -> partial(<empty>)
  fp.write / dump    extend the file; until close the on-disk text is *some* prefix of what was
                     written (user-space buffering), hence still `partial`
  close              completes the file                                        -> complete(v)
  os.rename(a,b) / os.replace(a,b)   atomically replace b by a; a disappears; FileNotFoundError if a is absent
  os.remove / os.unlink              FileNotFoundError if absent
  os.path.lexists / exists / isfile  p is present (no symlinks in the image)
  flush / os.fsync   no effect on the image (no power-failure model)
  a process crash loses nothing that reached the file and performs nothing more: after the crash
  point the image is frozen (`with`/`finally`/`except` blocks that run while the simulated crash
  propagates cannot touch it).

Crash points: an *event* is one stub call (one partial write = one event).  Crash point j means
"the process dies when exactly j events have completed" — i.e. after event j-1 and before event j.
"""
from __future__ import annotations

import builtins
import contextlib
import io
import json as _json
import os as _os
import types

from .cond import Undecided

ABSENT, COMPLETE, PARTIAL, MIXED = "absent", "complete", "partial", "mixed"

CONTRACTS = [
    "open(p,'w'|'x'|'a'): creates-or-truncates atomically ('w'), fails if present ('x'), keeps content ('a'); other modes undecided",
    "fp.write / json.dump(obj, fp) / fp.write(json.dumps(obj)): extend the file in >= 2 partial writes; the file stays 'partial' (some prefix) until close",
    "fp.close / leaving `with`: completes the file",
    "os.rename(a,b), os.replace(a,b): atomically replace b by a (POSIX); FileNotFoundError when a is absent",
    "os.remove(a), os.unlink(a): a becomes absent; FileNotFoundError when a is absent",
    "os.path.lexists / exists / isfile: presence in the image (no symbolic links)",
    "fp.flush, os.fsync: no effect (a process crash loses nothing already written; no power-failure model)",
    "after the crash point the image is frozen; cleanup code running during unwinding has no effect",
    "file contents are opaque: any attempt to read a file, or any file-system API without a contract, makes the obligation undecided",
]


class Crash(BaseException):
    """simulated death of the process at a crash point (BaseException: `except Exception` cannot swallow it)"""


class Token:
    """opaque file content"""

    def __init__(self, label):
        self.label = label

    def __repr__(self):
        return "<%s>" % self.label


def label_of(obj):
    if isinstance(obj, Token):
        return obj.label
    if isinstance(obj, (list, tuple)):
        inner = [label_of(o) for o in obj if isinstance(o, Token)]
        if inner:
            return "state+" + "+".join(inner)
    return "obj#%x" % (id(obj) & 0xFFFFF)


class GhostText:
    """result of the json.dumps stub: the (opaque) encoding of obj"""

    def __init__(self, fs, obj):
        self._fs, self.obj = fs, obj

    def __add__(self, other):
        if isinstance(other, str) and other.strip() == "":
            return self
        self._fs.undecided("string operation on an opaque JSON text")

    __radd__ = __add__

    def __getattr__(self, name):
        self._fs.undecided("str.%s on an opaque JSON text" % name)


class RealText(str):
    """result of the json.dumps wrapper of RealFS (so that fp.write(text) is split into partial writes)"""


def _model_error(exc):
    exc._vt_model = True
    return exc


class _StubModule:
    """stand-in for a module object (json / os / os.path) in the namespace of the module under test"""

    def __init__(self, fs, real, table, passthrough):
        self.__dict__.update(_fs=fs, _real=real, _table=table, _pass=passthrough)

    def __getattr__(self, name):
        d = self.__dict__
        if name in d["_table"]:
            return d["_table"][name]
        if name in d["_pass"]:
            return getattr(d["_real"], name)
        if name.startswith("__"):
            raise AttributeError(name)
        d["_fs"].undecided("%s.%s is used but has no contract in vt.fsmodel" % (d["_real"].__name__, name))


class _Forbidden:
    def __init__(self, fs, name):
        self.__dict__.update(_fs=fs, _name=name)

    def __getattr__(self, attr):
        if attr.startswith("__"):
            raise AttributeError(attr)
        self._fs.undecided("%s.%s is used but has no contract in vt.fsmodel" % (self._name, attr))


class _Fd:
    """descriptor returned by the os.open contract"""

    def __init__(self, path, trunc, real=None):
        self.path, self.trunc, self.real = path, trunc, real


_OS_PASS = {"O_WRONLY", "O_CREAT", "O_TRUNC", "O_EXCL", "O_CLOEXEC", "O_RDWR", "O_RDONLY", "O_APPEND", "sep", "pathsep", "linesep", "name", "fspath", "fsencode", "fsdecode", "getpid", "getcwd", "environ",
            "getenv", "PathLike", "curdir", "pardir", "extsep", "devnull", "error", "strerror", "altsep"}
_PATH_PASS = {"join", "dirname", "basename", "split", "splitext", "abspath", "normpath", "isabs", "sep", "relpath",
              "commonpath", "commonprefix", "expanduser", "normcase", "splitdrive"}
_JSON_PASS = {"JSONEncoder", "JSONDecoder", "JSONDecodeError", "encoder", "decoder"}
_FORBIDDEN_MODULES = {"shutil", "tempfile", "pathlib", "io", "glob", "pickle", "fcntl", "mmap", "subprocess"}


class Unwind(BaseException):
    """death of the process by an exception raised at a crash point (a second Ctrl-C, an error inside the encoder): unlike a kill, the
    interpreter unwinds the stack first, so `finally:` clauses and context managers of the code under contract still run - with the
    file system alive - before the process ends"""


class _FS:
    """event accounting + stub construction shared by GhostFS and RealFS"""

    def __init__(self, steps=2, crash_at=None, death="kill"):
        if steps < 2:
            raise ValueError("a dump is modelled as >= 2 partial writes")
        self.steps = int(steps)
        self.crash_at = crash_at
        self.death = death            # 'kill': nothing runs after the crash point; 'unwind': an exception propagates from it
        self.unwound = False
        self.crashed = False
        self.events = []
        self.unmodelled = []
        self._build_stubs()

    # ---- events -------------------------------------------------------------------------------
    def _ev(self, kind, *args):
        if self.crashed:
            raise Crash("process is dead")
        if self.crash_at is not None and len(self.events) == self.crash_at and not self.unwound:
            if self.death == "unwind":
                self.unwound = True
                raise Unwind("exception raised at crash point %d (before %s%r)" % (self.crash_at, kind, args))
            self.crashed = True
            raise Crash("crash point %d (before %s%r)" % (self.crash_at, kind, args))
        self.events.append((kind,) + tuple(args))

    def undecided(self, msg):
        self.unmodelled.append(msg)
        raise Undecided(msg)

    @staticmethod
    def _p(path):
        if isinstance(path, int) or not isinstance(path, (str, _os.PathLike)):
            return None
        return _os.path.normpath(_os.fspath(path))

    def _path(self, path, what):
        p = self._p(path)
        if p is None or not isinstance(p, str):
            self.undecided("%s on %r: only str paths have a contract" % (what, type(path).__name__))
        return p

    @staticmethod
    def base(p):
        return _os.path.basename(p)

    @staticmethod
    def _mode(mode):
        m = "".join(c for c in mode if c not in "bt")
        return m

    # ---- stubs --------------------------------------------------------------------------------
    def _build_stubs(self):
        fs = self

        def s_open(file, mode="r", *a, **kw):
            p = fs._path(file, "open")
            m = fs._mode(mode)
            if m not in ("w", "x", "a"):
                fs.undecided("open(%r, %r): reading / updating a file has no contract (contents are opaque)" % (fs.base(p), mode))
            fs._ev("open", fs.base(p), m)
            return fs._open(p, m, mode, a, kw)

        def s_dump(obj, fp, *a, **kw):
            if not isinstance(fp, (GhostFile, RealFile)):
                fs.undecided("json.dump to %r: not a file opened through the open() contract" % type(fp).__name__)
            fs._write_text(fp, fs._encode(obj, a, kw))

        def s_dumps(obj, *a, **kw):
            return fs._encode(obj, a, kw)

        def s_read(*a, **kw):
            fs.undecided("json.load/loads: reading a file has no contract (contents are opaque)")

        def s_rename(src, dst, *a, **kw):
            if a or kw:
                fs.undecided("os.rename/replace with dir_fd arguments")
            s, d = fs._path(src, "rename"), fs._path(dst, "rename")
            fs._ev("rename", fs.base(s), fs.base(d))
            fs._rename(s, d)

        def s_remove(path, *a, **kw):
            if a or kw:
                fs.undecided("os.remove with dir_fd argument")
            p = fs._path(path, "remove")
            fs._ev("remove", fs.base(p))
            fs._remove(p)

        def s_exists(path):
            p = fs._p(path)
            if p is None:
                fs.undecided("exists() on a non-path")
            fs._ev("lexists", fs.base(p))
            return fs._exists(p)

        def s_fsync(fd):
            fs._ev("fsync")
            fs._fsync(fd)

        def s_os_open(path, flags, mode=0o777, *a, **kw):
            """os.open for WRITING: O_WRONLY with any of O_CREAT / O_TRUNC / O_EXCL (/ O_CLOEXEC).  Without O_TRUNC an existing
            file is overwritten from offset 0 and keeps whatever lies beyond what is written."""
            if a or kw:
                fs.undecided("os.open with dir_fd argument")
            p = fs._path(path, "os.open")
            known = _os.O_WRONLY | _os.O_CREAT | _os.O_TRUNC | _os.O_EXCL | getattr(_os, "O_CLOEXEC", 0)
            if not (flags & _os.O_WRONLY) or (flags & ~known):
                fs.undecided("os.open(%r, flags=%#o): only write-only opens with O_CREAT/O_TRUNC/O_EXCL have a contract" % (fs.base(p), flags))
            exists = fs._exists(p)
            if (flags & _os.O_EXCL) and (flags & _os.O_CREAT) and exists:
                raise _model_error(FileExistsError(17, "File exists", p))
            if not (flags & _os.O_CREAT) and not exists:
                raise _model_error(FileNotFoundError(2, "No such file or directory", p))
            trunc = bool(flags & _os.O_TRUNC)
            fs._ev("open", fs.base(p), "w" if trunc else "overwrite")
            return fs._os_open(p, flags, mode, trunc)

        def s_fdopen(fd, mode="r", *a, **kw):
            if not isinstance(fd, _Fd):
                fs.undecided("os.fdopen on a descriptor that was not obtained through the os.open contract")
            if fs._mode(mode) != "w":
                fs.undecided("os.fdopen(fd, %r): only mode 'w' has a contract" % mode)
            return fs._fdopen(fd, mode, a, kw)

        self.stub_open = s_open
        path_table = {"lexists": s_exists, "exists": s_exists, "isfile": s_exists}
        self.path_stub = _StubModule(fs, _os.path, path_table, _PATH_PASS)
        os_table = {"rename": s_rename, "replace": s_rename, "remove": s_remove, "unlink": s_remove,
                    "fsync": s_fsync, "fdatasync": s_fsync, "path": self.path_stub, "open": s_os_open, "fdopen": s_fdopen}
        self.os_stub = _StubModule(fs, _os, os_table, _OS_PASS)
        json_table = {"dump": s_dump, "dumps": s_dumps, "load": s_read, "loads": s_read}
        self.json_stub = _StubModule(fs, _json, json_table, _JSON_PASS)
        # aliases that a module may have bound with `from os import rename`
        self.alias = [
            (_os.rename, s_rename), (_os.replace, s_rename), (_os.remove, s_remove), (_os.unlink, s_remove),
            (_os.path.lexists, s_exists), (_os.path.exists, s_exists), (_os.path.isfile, s_exists),
            (_os.fsync, s_fsync), (_json.dump, s_dump), (_json.dumps, s_dumps), (_json.load, s_read),
            (_json.loads, s_read), (builtins.open, s_open), (io.open, s_open),
        ]


STUBBED_NAMES = ["open", "os.open (write-only, O_CREAT/O_TRUNC/O_EXCL)", "os.fdopen (mode w)", "json.dump", "json.dumps", "json.load(s) [undecided]", "os.rename", "os.replace", "os.remove",
                 "os.unlink", "os.fsync", "os.path.lexists", "os.path.exists", "os.path.isfile",
                 "every other attribute of os / os.path / json outside a pure pass-through list, and shutil / tempfile / "
                 "pathlib / io [undecided when touched]"]


@contextlib.contextmanager
def installed(module, fs):
    """replace open / json / os (and aliases) in vars(module) by the stubs of `fs` for the duration of the block"""
    ns = vars(module)
    missing = object()
    saved = {}

    def put(k, v):
        if k not in saved:
            saved[k] = ns.get(k, missing)
        ns[k] = v

    try:
        for k, v in list(ns.items()):
            if v is _json:
                put(k, fs.json_stub)
            elif v is _os:
                put(k, fs.os_stub)
            elif v is _os.path:
                put(k, fs.path_stub)
            elif isinstance(v, types.ModuleType) and v.__name__.split(".")[0] in _FORBIDDEN_MODULES:
                put(k, _Forbidden(fs, v.__name__))
            elif callable(v) and not isinstance(v, type):
                for real, stub in fs.alias:
                    if v is real:
                        put(k, stub)
                        break
        put("open", fs.stub_open)  # shadows the builtin for every function defined in this module
        yield sorted(saved)
    finally:
        for k, v in saved.items():
            if v is missing:
                ns.pop(k, None)
            else:
                ns[k] = v


# ================================================================================================
# abstract image
# ================================================================================================
class GhostFile:
    def __init__(self, fs, path, base):
        self._fs, self._path, self._base = fs, path, tuple(base)
        self._tail = ()   # what an open WITHOUT truncation leaves behind what is written (os.open contract)
        self._evpath = path   # events are labelled with the name the file was opened under (as the real twin does)
        self.pieces = []  # [token, written, total]
        self.closed = False
        self.name = path
        self.mode = "w"

    def _content(self):
        return self._base + tuple(p[0] for p in self.pieces) + tuple(self._tail)

    def write(self, data):
        fs = self._fs
        if self.closed:
            raise _model_error(ValueError("I/O operation on closed file."))
        if isinstance(data, str) and data.strip() == "":
            return len(data)  # whitespace does not change what a JSON text denotes
        if not isinstance(data, GhostText):
            fs.undecided("fp.write(%s): only the text produced by json.dump(s) has a contract" % type(data).__name__)
        fs._write_text(self, data)
        return 1

    def flush(self):
        self._fs._ev("flush", self._fs.base(self._evpath))

    def fileno(self):
        return 1000 + id(self) % 1000

    def writable(self):
        return True

    def close(self):
        if self.closed:
            return
        fs = self._fs
        fs._ev("close", fs.base(self._evpath))
        self.closed = True
        fs._handles.pop(self._path, None)
        if not self.pieces:
            rec = fs._before_open.get(self._path) if (self._base or self._tail) else (PARTIAL, ())
            if rec is None:
                rec = (PARTIAL, ())
        elif not self._base and not self._tail and len(self.pieces) == 1 and self.pieces[0][1] == self.pieces[0][2]:
            rec = (COMPLETE, (self.pieces[0][0],))
        else:
            rec = (MIXED, self._content())
        fs.files[self._path] = rec

    def __enter__(self):
        return self

    def __exit__(self, et, ev, tb):
        if self._fs.crashed or (et is not None and issubclass(et, Crash)):
            return False  # the process is dead: nothing is closed, flushed or completed
        self.close()
        return False

    def __getattr__(self, name):
        if name.startswith("__"):
            raise AttributeError(name)
        self._fs.undecided("file.%s has no contract in vt.fsmodel" % name)


class GhostFS(_FS):
    """files: normalised path -> (kind, contents) with contents a tuple of opaque tokens (one token unless mixed)"""

    def __init__(self, steps=2, crash_at=None, death="kill"):
        super().__init__(steps, crash_at, death)
        self.files = {}
        self._handles = {}
        self._before_open = {}

    def preset(self, path, kind, token=None):
        p = self._p(path)
        if kind == ABSENT:
            self.files.pop(p, None)
        elif kind == PARTIAL:
            self.files[p] = (PARTIAL, (token,) if token is not None else ())
        elif kind == COMPLETE:
            self.files[p] = (COMPLETE, (token,))
        else:
            self.files[p] = (MIXED, (token,))

    def get(self, path):
        return self.files.get(self._p(path), (ABSENT, ()))

    @property
    def open_handles(self):
        return sorted(self._handles)

    # semantic operations (called after the event has been accounted for)
    def _open(self, p, m, mode, a, kw):
        if p in self._handles:
            self.undecided("open(%r) while another handle on it is open" % self.base(p))
        if m == "x" and p in self.files:
            raise _model_error(FileExistsError(17, "File exists", p))
        base = ()
        if m == "a" and p in self.files:
            kind, content = self.files[p]
            self._before_open[p] = (kind, content)
            base = tuple(content) if kind == COMPLETE else tuple(content) + ("<truncated>",)
        else:
            self.files[p] = (PARTIAL, ())
        h = GhostFile(self, p, base)
        self._handles[p] = h
        return h

    def _os_open(self, p, flags, mode, trunc):
        if p in self._handles:
            self.undecided("os.open(%r) while another handle on it is open" % self.base(p))
        kind, content = self.files.get(p, (ABSENT, ()))
        if trunc or kind == ABSENT or not content:
            self.files[p] = (PARTIAL, ())
            tail = ()
        else:
            # not truncated: what is written replaces a prefix, the rest of the old content stays (contents are opaque, so their lengths
            # are unconstrained: the old content may be longer than the new one)
            tail = ("<tail of>",) + tuple(content)
            self._before_open[p] = (kind, content)     # nothing changes until the first write
        return _Fd(p, trunc, real=tail)

    def _fdopen(self, fd, mode, a, kw):
        h = GhostFile(self, fd.path, ())
        h._tail = tuple(fd.real or ())
        self._handles[fd.path] = h
        return h

    def _encode(self, obj, a, kw):
        return GhostText(self, obj)

    def _write_text(self, fp, text):
        if fp.closed:
            raise _model_error(ValueError("I/O operation on closed file."))
        piece = [text.obj, 0, self.steps]
        for i in range(self.steps):
            self._ev("write", self.base(getattr(fp, "_evpath", fp._path)), "%d/%d" % (i + 1, self.steps))
            if i == 0:
                fp.pieces.append(piece)
            piece[1] = i + 1
            c = fp._content()
            self.files[fp._path] = (PARTIAL if len(c) == 1 else MIXED, c)

    def _rename(self, s, d):
        if s not in self.files:
            raise _model_error(FileNotFoundError(2, "No such file or directory", s))
        if d in self._handles:
            self.undecided("rename onto a file that is still open")
        if s == d:
            return
        self.files[d] = self.files.pop(s)
        if s in self._handles:
            # POSIX: the open handle follows the file (inode), which now lives under the new name and stays
            # incomplete (its buffered tail is lost by a crash) until close
            h = self._handles.pop(s)
            h._path = d
            self._handles[d] = h
            if s in self._before_open:
                self._before_open[d] = self._before_open.pop(s)
            kind, content = self.files[d]
            if kind == COMPLETE:
                self.files[d] = (PARTIAL, content)

    def _remove(self, p):
        if p not in self.files:
            raise _model_error(FileNotFoundError(2, "No such file or directory", p))
        if p in self._handles:
            self.undecided("remove of a file that is still open")
        del self.files[p]

    def _exists(self, p):
        return p in self.files

    def _fsync(self, fd):
        pass


# ================================================================================================
# real directory, same events
# ================================================================================================
class RealFile:
    def __init__(self, fs, path, fh):
        self.__dict__.update(_fs=fs, _path=path, _fh=fh, _done=False)

    def write(self, data):
        if isinstance(data, RealText):
            self._fs._write_text(self, data)
            return len(data)
        if isinstance(data, str) and data.strip() == "":
            return self._fh.write(data)
        self._fs._ev("write", self._fs.base(self._path), "raw")
        return self._fh.write(data)

    def flush(self):
        self._fs._ev("flush", self._fs.base(self._path))
        self._fh.flush()

    def close(self):
        if self._done:
            return
        self._fs._ev("close", self._fs.base(self._path))
        self.__dict__["_done"] = True
        pend = self.__dict__.pop("_pending", None)
        if pend:
            self._fh.write(pend)   # the user-space buffer reaches the file only on close
        self._fh.close()

    def __enter__(self):
        return self

    def __exit__(self, et, ev, tb):
        if self._fs.crashed or (et is not None and issubclass(et, Crash)):
            return False
        self.close()
        return False

    def __getattr__(self, name):
        return getattr(self._fh, name)


class RealFS(_FS):
    """same stubs and event accounting, real effects.  A dump is written as `steps` slices of the real JSON
    text; when the crash strikes after the last slice but before close, the final byte is withheld (that is
    the user-space buffer a dying process loses) so that the realisation of `partial` is a strict prefix."""

    def __init__(self, steps=2, crash_at=None, death="kill"):
        super().__init__(steps, crash_at, death)
        self._real_handles = []

    def _open(self, p, m, mode, a, kw):
        fh = builtins.open(p, mode, *a, **kw)
        h = RealFile(self, p, fh)
        self._real_handles.append(fh)
        return h

    def _os_open(self, p, flags, mode, trunc):
        return _Fd(p, trunc, real=_os.open(p, flags, mode))

    def _fdopen(self, fd, mode, a, kw):
        fh = _os.fdopen(fd.real, mode, *a, **kw)
        h = RealFile(self, fd.path, fh)
        self._real_handles.append(fh)
        return h

    def _encode(self, obj, a, kw):
        return RealText(_json.dumps(obj, *a, **kw))

    def _write_text(self, fp, text):
        n = len(text)
        if n <= self.steps:
            raise RuntimeError("JSON text too short to be split into %d partial writes" % self.steps)
        cuts = [n * i // self.steps for i in range(self.steps + 1)]
        for i in range(self.steps):
            self._ev("write", self.base(fp._path), "%d/%d" % (i + 1, self.steps))
            hi = cuts[i + 1]
            if i == self.steps - 1:
                # the final byte stays in the user-space buffer until close(): a process that dies before close
                # (even after a rename of the still-open file) leaves a strict prefix
                hi = n - 1
                fp.__dict__["_pending"] = text[n - 1:]
            fp._fh.write(text[cuts[i]:hi])

    def _rename(self, s, d):
        _os.rename(s, d)

    def _remove(self, p):
        _os.remove(p)

    def _exists(self, p):
        return _os.path.lexists(p)

    def _fsync(self, fd):
        _os.fsync(fd)

    def abandon(self):
        """after the run: release the real handles (what was handed to write() reaches the file — 'a process
        crash loses nothing already written')"""
        for fh in self._real_handles:
            try:
                fh.close()
            except Exception:
                pass
        self._real_handles = []


def describe_point(j, events):
    """human-readable crash point"""
    def fmt(e):
        return "%s(%s)" % (e[0], ",".join(str(x) for x in e[1:]))
    before = fmt(events[j]) if j < len(events) else "return"
    after = fmt(events[j - 1]) if j > 0 else "entry"
    return "after %s / before %s" % (after, before)
