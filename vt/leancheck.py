"""Lean back end for spec-level lemmas (DESIGN 2.2, back end 3). thorough: re-run `lean` on the file;
quick: compare the file's sha256 with the hash recorded when it was last accepted (lean/PROVED.json)."""
import hashlib
import json
import os
import subprocess

from .cond import Undecided
from .runner import Ob, VERIF


def lean_ob(name, fname, tier, statement):
    def body():
        path = os.path.join(VERIF, "lean", fname)
        src = open(path, "rb").read()
        h = hashlib.sha256(src).hexdigest()
        if b"sorry" in src or b"admit" in src:
            raise Undecided("lean file contains sorry/admit")
        rec = os.path.join(VERIF, "lean", "PROVED.json")
        proved = json.load(open(rec)) if os.path.exists(rec) else {}
        if tier == "quick" and os.environ.get("VERIF_LEAN") != "1":
            if proved.get(fname) == h:
                return {"backend": "lean(hash of accepted file)", "statement": statement, "sha256": h[:16]}
            raise Undecided("lean file changed since it was last accepted; run the thorough tier")
        r = subprocess.run(["lean", path], capture_output=True, text=True, timeout=1500)
        if r.returncode != 0 or "error" in r.stdout:
            raise Undecided("lean rejected %s: %s" % (fname, (r.stdout + r.stderr)[-800:]))
        return {"backend": "lean4+mathlib", "statement": statement, "sha256": h[:16]}
    return Ob(name, "U", body, clause="spec-level lemma (Lean/Mathlib)", timeout=1600)


def record(fname):
    path = os.path.join(VERIF, "lean", fname)
    h = hashlib.sha256(open(path, "rb").read()).hexdigest()
    rec = os.path.join(VERIF, "lean", "PROVED.json")
    proved = json.load(open(rec)) if os.path.exists(rec) else {}
    proved[fname] = h
    json.dump(proved, open(rec, "w"), indent=1)
