"""Recording proxies for heap / protocol properties (DESIGN 2.1 "Symbolic objects", used by C11).

Nothing of /repo is re-implemented here.  A *recording proxy* is a real torchtree object (built
by the real `__init__`, registered through the real `Parametric.__setattr__`) whose class has been
replaced, after construction, by a dynamically created **subclass of its own real class** that
only overrides `__getattribute__` / `__call__` to log

  ('read',   reader, obj, attr)      reader = the instrumented object whose method/property is
                                     currently executing (None = the harness / un-instrumented code
                                     running on behalf of the root object, e.g. a torch Transform)
  ('handle', obj, handler, source)   `handle_parameter_changed` / `handle_model_changed` invoked on obj

and then delegates to the real attribute lookup (real properties, real MRO, real `__getattr__`
fallback of `Parametric`).  `isinstance` checks of the library keep working because the proxy class
is a subclass.  `type(x) is C` checks would not; `scan_type_identity_checks` reports them
(DESIGN section 8, item 6).

Also here: class discovery (import every torchtree module, walk subclasses), recording listeners
and the shadow cache used to decide "was everything that may cache this value invalidated?".
"""
from __future__ import annotations

import importlib
import pkgutil
import types

HANDLERS = ("handle_parameter_changed", "handle_model_changed")

# attribute names that are protocol plumbing, not values: reading them creates no value dependency
NON_VALUE = frozenset({
    "handle_parameter_changed", "handle_model_changed", "fire_parameter_changed", "fire_model_changed",
    "add_parameter_listener", "add_model_listener", "remove_parameter_listener", "remove_model_listener",
    "listeners", "_listeners", "id", "_id", "tag", "_tag", "parameters", "models", "params", "callables",
    "_parameters", "_models", "to", "cuda", "cpu", "_apply", "register_parameter", "register_model",
    "_vt_rec", "__class__", "__dict__",
})


class Recorder:
    """event log + reader stack shared by the proxies of one scenario"""

    def __init__(self):
        self.events = []
        self.stack = []
        self.labels = {}
        self.objects = {}
        self.enabled = True

    def label(self, obj):
        if obj is None:
            return None
        return self.labels.get(id(obj), "<%s>" % type(obj).__name__)

    def clear(self):
        del self.events[:]

    def mark(self):
        return len(self.events)

    def since(self, mark):
        return self.events[mark:]

    # -- queries ---------------------------------------------------------------------------------
    def value_reads(self, mark=0, reader=None, root_too=True):
        """(obj_label, attr) read by `reader` (label) — and by un-instrumented code (None) if root_too"""
        out = []
        for e in self.events[mark:]:
            if e[0] != "read" or e[3] in NON_VALUE:
                continue
            if e[1] == reader or (root_too and e[1] is None):
                out.append((e[2], e[3]))
        return out

    def handled(self, mark=0, obj=None):
        """(handler, source_label) invoked on obj (label) since mark"""
        return [(e[2], e[3]) for e in self.events[mark:] if e[0] == "handle" and (obj is None or e[1] == obj)]


class _Bound:
    """bound method of an instrumented object: pushes the object as current reader during the call"""
    __slots__ = ("rec", "obj", "fn", "name")

    def __init__(self, rec, obj, fn, name):
        self.rec, self.obj, self.fn, self.name = rec, obj, fn, name

    def __call__(self, *a, **k):
        rec = self.rec
        if rec.enabled and self.name in HANDLERS:
            rec.events.append(("handle", rec.label(self.obj), self.name, rec.label(a[0]) if a else None))
        rec.stack.append(self.obj)
        try:
            return self.fn(*a, **k)
        finally:
            rec.stack.pop()

    def __getattr__(self, n):
        return getattr(self.fn, n)


_CLASS_CACHE = {}


def recording_class(cls):
    """dynamic subclass of the real class `cls` that logs reads / handler calls"""
    rc = _CLASS_CACHE.get(cls)
    if rc is not None:
        return rc

    def __getattribute__(self, name):
        if name[:2] == "__" or name == "_vt_rec":
            return super(rc_ref[0], self).__getattribute__(name)
        rec = object.__getattribute__(self, "__dict__").get("_vt_rec")
        if rec is None or not rec.enabled:
            return super(rc_ref[0], self).__getattribute__(name)
        reader = rec.stack[-1] if rec.stack else None
        if reader is not self:
            rec.events.append(("read", rec.label(reader), rec.label(self), name))
        rec.stack.append(self)
        try:
            v = super(rc_ref[0], self).__getattribute__(name)  # AttributeError -> Parametric.__getattr__ (CPython)
        finally:
            rec.stack.pop()
        if isinstance(v, types.MethodType) and v.__self__ is self:
            return _Bound(rec, self, v, name)
        return v

    ns = {"__getattribute__": __getattribute__, "_vt_real_class": cls}
    if hasattr(cls, "__call__"):
        def __call__(self, *a, **k):
            rec = object.__getattribute__(self, "__dict__").get("_vt_rec")
            if rec is None or not rec.enabled:
                return super(rc_ref[0], self).__call__(*a, **k)
            reader = rec.stack[-1] if rec.stack else None
            if reader is not self:
                rec.events.append(("read", rec.label(reader), rec.label(self), "__call__"))
            rec.stack.append(self)
            try:
                return super(rc_ref[0], self).__call__(*a, **k)
            finally:
                rec.stack.pop()
        ns["__call__"] = __call__
    rc_ref = [None]
    rc = type(cls)("Rec_" + cls.__name__, (cls,), ns)
    rc.__module__ = cls.__module__
    rc.__qualname__ = cls.__qualname__
    rc_ref[0] = rc
    _CLASS_CACHE[cls] = rc
    return rc


def real_class(obj_or_cls):
    c = obj_or_cls if isinstance(obj_or_cls, type) else type(obj_or_cls)
    return getattr(c, "_vt_real_class", c)


def instrument(obj, label, rec):
    """turn a really constructed object into a recording proxy of itself (in place)"""
    cls = type(obj)
    if not hasattr(cls, "_vt_real_class"):
        obj.__class__ = recording_class(cls)
    object.__setattr__(obj, "_vt_rec", rec)
    rec.labels[id(obj)] = label
    rec.objects[label] = obj
    return obj


class reading_as:
    """context: attribute reads made by un-instrumented code are attributed to `obj`"""

    def __init__(self, rec, obj):
        self.rec, self.obj = rec, obj

    def __enter__(self):
        self.rec.stack.append(self.obj)

    def __exit__(self, *exc):
        self.rec.stack.pop()


# ------------------------------------------------------------------------------------------------
# listeners
# ------------------------------------------------------------------------------------------------
_LISTENER_CLASSES = {}


def _listener_bases():
    from torchtree.core.parametric import ModelListener, ParameterListener
    return ModelListener, ParameterListener


def recording_listener(log=None, on_notify=None):
    """instance of a real ParameterListener+ModelListener subclass that logs every notification"""
    if "rec" not in _LISTENER_CLASSES:
        ML, PL = _listener_bases()

        class RecordingListener(ML, PL):
            def __init__(self, log, on_notify):
                self.log = log if log is not None else []
                self.on_notify = on_notify

            def handle_parameter_changed(self, variable, index, event):
                self.log.append(("parameter", variable))
                if self.on_notify:
                    self.on_notify("parameter", variable)

            def handle_model_changed(self, model, obj, index):
                self.log.append(("model", model))
                if self.on_notify:
                    self.on_notify("model", model)
        _LISTENER_CLASSES["rec"] = RecordingListener
    return _LISTENER_CLASSES["rec"](log, on_notify)


class ShadowCache:
    """what any correct client of the observer protocol does: cache a value derived from `source`,
    invalidate on notification.  consistent() is the C11 invariant for this client:
    not dirty => cached == value now."""

    def __init__(self, source, read, kind="parameter"):
        import torch
        self._torch = torch
        self.source = source
        self.read = read
        self.dirty = True
        self.cached = None
        self.notifications = 0
        self.listener = recording_listener(on_notify=self._notified)
        if kind == "parameter":
            source.add_parameter_listener(self.listener)
        else:
            source.add_model_listener(self.listener)

    def _notified(self, kind, src):
        self.dirty = True
        self.notifications += 1

    def _snap(self, v):
        torch = self._torch
        if isinstance(v, torch.Tensor):
            return v.detach().clone()
        if isinstance(v, (tuple, list)):
            return [self._snap(x) for x in v]
        return v

    def get(self):
        if self.dirty:
            self.cached = self._snap(self.read())
            self.dirty = False
        return self.cached

    def consistent(self):
        if self.dirty:
            return True
        return same_value(self.cached, self._snap(self.read()))


def same_value(a, b, atol=1e-12, rtol=1e-12):
    import torch
    if isinstance(a, torch.Tensor) and isinstance(b, torch.Tensor):
        if a.shape != b.shape:
            return False
        if a.dtype.is_floating_point or b.dtype.is_floating_point:
            return bool(torch.allclose(a.detach().to(torch.float64), b.detach().to(torch.float64), atol=atol, rtol=rtol, equal_nan=True))
        return bool(torch.equal(a, b))
    if isinstance(a, (tuple, list)) and isinstance(b, (tuple, list)):
        return len(a) == len(b) and all(same_value(x, y, atol, rtol) for x, y in zip(a, b))
    if a is None or b is None:
        return a is b
    try:
        return bool(a == b)
    except Exception:
        return False


# ------------------------------------------------------------------------------------------------
# discovery
# ------------------------------------------------------------------------------------------------
def import_all(package="torchtree", skip=("torchtree.cli",)):
    """import every module of the package from the current working tree; returns (imported, failed)"""
    pkg = importlib.import_module(package)
    imported, failed = [], []
    for m in pkgutil.walk_packages(pkg.__path__, package + "."):
        if any(m.name == s or m.name.startswith(s + ".") for s in skip):
            continue
        try:
            importlib.import_module(m.name)
            imported.append(m.name)
        except Exception as e:  # optional dependency missing
            failed.append((m.name, "%s: %s" % (type(e).__name__, str(e)[:120])))
    return imported, failed


def all_subclasses(base):
    out, todo = [], [base]
    seen = set()
    while todo:
        c = todo.pop()
        for s in c.__subclasses__():
            if s in seen or hasattr(s, "_vt_real_class"):
                continue
            seen.add(s)
            out.append(s)
            todo.append(s)
    return sorted(out, key=lambda c: (c.__module__, c.__qualname__))


def is_abstract(cls):
    return bool(getattr(cls, "__abstractmethods__", None))


def defining_class(cls, name):
    for k in cls.__mro__:
        if name in k.__dict__:
            return k
    return None


def scan_type_identity_checks(modules):
    """proxy-faithfulness scan: `type(x) is/== C` in the given modules (file, line, text)"""
    import ast
    import inspect
    hits = []
    for mn in modules:
        try:
            m = importlib.import_module(mn)
            src = inspect.getsource(m)
        except Exception:
            continue
        for node in ast.walk(ast.parse(src)):
            if isinstance(node, ast.Compare):
                parts = [node.left] + list(node.comparators)
                for p in parts:
                    if isinstance(p, ast.Call) and isinstance(p.func, ast.Name) and p.func.id == "type" and len(p.args) == 1:
                        hits.append((mn, node.lineno, ast.unparse(node)[:120]))
                        break
    return hits
