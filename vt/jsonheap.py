"""vt.jsonheap — heap / protocol support for properties about JSON specifications (C13).

Nothing in here models the functions of /repo.  It provides what is needed to *execute the
real functions* on adversarial arguments and to observe everything they do to the registry:

  Obj            fresh heap objects (identity is the only thing that matters)
  SymId          a ``str`` whose content-inspecting operations are recorded: a function that only
                 hashes / compares an id (what ``dict`` does) treats it generically, so a result
                 obtained for one spelling holds for every spelling with the same equality pattern
  RecDict        a ``dict`` that records every access (who, op, key, old, new); used for the
                 registry ``dic`` and for the specification ``data``
  Chooser/explore   all-paths exploration of nondeterministic stubs by deterministic re-execution
                 (decision log), fails closed on a path budget (Undecided)
  patched        replace names in the namespace of the module under test for one obligation
  variant        compile a *copy* of a real function from its current source after an AST edit
                 (must-fail twins); the copy lives in a copy of the module namespace
  Run / call_sub / StubClass / po_contract
                 the adversarial constructor callback and the assumed contract of the recursive call
  spec trees     structural enumeration of specification trees and of all id-equality patterns
  json shapes    enumeration of JSON values for remove_comments / expand_plates
  frame_scan     AST frame scan of every from_json in the repository
"""
from __future__ import annotations

import ast
import contextlib
import inspect
import itertools
import os
import textwrap

from .cond import Undecided

# --------------------------------------------------------------------------------------
# heap objects, symbolic ids, recording dict
# --------------------------------------------------------------------------------------


class Obj:
    """fresh heap object; only its identity is used"""
    __slots__ = ("tag",)

    def __init__(self, tag):
        self.tag = tag

    def __repr__(self):
        return "<%s>" % self.tag


class Log(list):
    """access log shared by the proxies of one run; actor 'fut' = function under test, 'env' = stub"""
    actor = "fut"

    @contextlib.contextmanager
    def as_(self, who):
        old = self.actor
        self.actor = who
        try:
            yield
        finally:
            self.actor = old


_STR_SILENT = {"__hash__", "__eq__", "__ne__", "__str__", "__repr__", "__format__", "__class__",
               "__new__", "__init__", "__getattribute__", "__reduce__", "__reduce_ex__", "__sizeof__",
               "__dict__", "_log", "__getnewargs__", "__init_subclass__", "__subclasshook__", "__doc__",
               "__setattr__", "__delattr__", "__dir__"}


def _logged_str_dunder(name):
    def f(self, *a):
        self._log.append((self._log.actor, "str." + name, str.__str__(self), tuple(str(x) for x in a)))
        return getattr(str, name)(self, *a)
    f.__name__ = name
    return f


class SymId(str):
    """identifier whose spelling is irrelevant unless the code under test looks at it: hashing,
    equality and formatting are silent, every other operation is logged as ('str.<op>', id, args)"""

    def __new__(cls, s, log):
        o = str.__new__(cls, s)
        o._log = log
        return o

    def __getattribute__(self, name):
        if not name.startswith("_"):
            log = str.__getattribute__(self, "_log")
            log.append((log.actor, "str." + name, str.__str__(self), ()))
        return str.__getattribute__(self, name)

    __hash__ = str.__hash__

    def __eq__(self, o):
        return str.__eq__(self, o)

    def __ne__(self, o):
        return str.__ne__(self, o)


for _n in ("__contains__", "__getitem__", "__iter__", "__len__", "__add__", "__mod__", "__mul__", "__rmul__",
           "__lt__", "__le__", "__gt__", "__ge__"):
    setattr(SymId, _n, _logged_str_dunder(_n))


class RecDict(dict):
    """dict recording every access: entries (actor, op, key, present_before, old, new)"""

    def __init__(self, init=(), log=None, name="dic"):
        dict.__init__(self, init)
        self._log = log if log is not None else Log()
        self._name = name

    # --- unlogged access for the harness
    def raw(self):
        return dict(dict.items(self))

    def raw_has(self, k):
        return dict.__contains__(self, k)

    def raw_get(self, k, d=None):
        return dict.get(self, k, d)

    def _rec(self, op, key=None, present=None, old=None, new=None):
        self._log.append((self._log.actor, self._name + "." + op, key, present, old, new))

    # --- logged reads
    def __contains__(self, k):
        self._rec("in", k, dict.__contains__(self, k))
        return dict.__contains__(self, k)

    def __getitem__(self, k):
        self._rec("get", k, dict.__contains__(self, k))
        return dict.__getitem__(self, k)

    def get(self, k, d=None):
        self._rec("get", k, dict.__contains__(self, k))
        return dict.get(self, k, d)

    # --- logged writes
    def __setitem__(self, k, v):
        self._rec("set", k, dict.__contains__(self, k), dict.get(self, k), v)
        dict.__setitem__(self, k, v)

    def __delitem__(self, k):
        self._rec("del", k, dict.__contains__(self, k), dict.get(self, k))
        dict.__delitem__(self, k)


def _other(name, write):
    def f(self, *a, **kw):
        self._rec(("write:" if write else "bulk:") + name)
        return getattr(dict, name)(self, *a, **kw)
    f.__name__ = name
    return f


for _n in ("update", "pop", "popitem", "setdefault", "clear", "__ior__"):
    setattr(RecDict, _n, _other(_n, True))
for _n in ("keys", "values", "items", "__iter__", "__len__", "copy", "__or__", "__eq__", "__reversed__"):
    setattr(RecDict, _n, _other(_n, False))
RecDict.__hash__ = None


def same_map(a, b):
    """identity-equality of two plain dict snapshots (same keys in the same order, same objects)"""
    return list(a.keys()) == list(b.keys()) and all(a[k] is b[k] for k in a)


# --------------------------------------------------------------------------------------
# all-paths exploration by re-execution
# --------------------------------------------------------------------------------------


class Chooser:
    def __init__(self, prefix=()):
        self.prefix = list(prefix)
        self.log = []

    def choose(self, n, label=""):
        """pick one of n alternatives (0..n-1); n == 1 is not recorded"""
        if n <= 1:
            return 0
        i = len(self.log)
        c = self.prefix[i] if i < len(self.prefix) else 0
        if c >= n:
            raise RuntimeError("non-deterministic re-execution (choice %d of %d at %s)" % (c, n, label))
        self.log.append((c, n, label))
        return c

    def pick(self, options, label=""):
        return options[self.choose(len(options), label)]

    def decisions(self):
        return [c for c, _, _ in self.log]


def explore(run, budget=2_000_000):
    """call run(chooser) once for every sequence of choices; returns number of paths.
    A budget hit is Undecided, never 'held'."""
    stack = [[]]
    paths = 0
    while stack:
        prefix = stack.pop()
        ch = Chooser(prefix)
        run(ch)
        paths += 1
        if paths > budget:
            raise Undecided("path budget %d exceeded" % budget)
        dec = ch.decisions()
        for i in range(len(prefix), len(ch.log)):
            _, n, _ = ch.log[i]
            for alt in range(1, n):
                stack.append(dec[:i] + [alt])
    return paths


# --------------------------------------------------------------------------------------
# namespace patching and compiled variants of real functions
# --------------------------------------------------------------------------------------

_MISSING = object()


@contextlib.contextmanager
def patched(ns, **repl):
    """replace names in a module namespace (a dict) for the duration of the block"""
    saved = {k: ns.get(k, _MISSING) for k in repl}
    ns.update(repl)
    try:
        yield
    finally:
        for k, v in saved.items():
            if v is _MISSING:
                ns.pop(k, None)
            else:
                ns[k] = v


def variant(func, transformer, what):
    """compile a copy of the real function `func` from its *current* source after the AST edit
    `transformer` (an ast.NodeTransformer with attribute .hits).  The copy lives in a copy of the
    defining module's namespace, so the real module is untouched.  Returns (function, namespace)."""
    try:
        src = textwrap.dedent(inspect.getsource(func))
    except (OSError, TypeError) as e:
        raise Undecided("source of %s unavailable: %s" % (func.__qualname__, e))
    tree = ast.parse(src)
    tree = transformer.visit(tree)
    if not getattr(transformer, "hits", 0):
        raise Undecided("edit site for twin '%s' not found in %s" % (what, func.__qualname__))
    ast.fix_missing_locations(tree)
    ns = dict(func.__globals__)
    exec(compile(tree, "<twin %s of %s>" % (what, func.__qualname__), "exec"), ns)
    return ns[func.__name__], ns


class DropDuplicateCheck(ast.NodeTransformer):
    """remove every `if <x> in dic [and ...]: raise ...` (the duplicate-id test)"""

    def __init__(self, dic_name="dic"):
        self.hits = 0
        self.dic_name = dic_name

    def _mentions_in_dic(self, test):
        for n in ast.walk(test):
            if isinstance(n, ast.Compare) and len(n.ops) == 1 and isinstance(n.ops[0], ast.In) \
                    and isinstance(n.comparators[0], ast.Name) and n.comparators[0].id == self.dic_name:
                return True
        return False

    def visit_If(self, node):
        self.generic_visit(node)
        if self._mentions_in_dic(node.test) and len(node.body) == 1 and isinstance(node.body[0], ast.Raise) \
                and not node.orelse:
            self.hits += 1
            return ast.Pass()
        return node


class ReferenceReturnsCopy(ast.NodeTransformer):
    """`obj = dic[data]`  ->  `obj = copy.copy(dic[data])`  (reference no longer the same instance)"""

    def __init__(self):
        self.hits = 0

    def visit_Assign(self, node):
        v = node.value
        if isinstance(v, ast.Subscript) and isinstance(v.value, ast.Name) and v.value.id == "dic" \
                and isinstance(v.slice, ast.Name) and v.slice.id == "data":
            self.hits += 1
            node.value = ast.Call(func=ast.Attribute(value=ast.Name("copy", ast.Load()), attr="copy", ctx=ast.Load()),
                                  args=[v], keywords=[])
        return node


# --------------------------------------------------------------------------------------
# specification trees
#   node = ("r", id)  |  ("d", id, (child, ...))
# --------------------------------------------------------------------------------------

ALPHABET = "abcdefghijklmnop"


def tree_shapes(depth, width):
    """definition-rooted shapes: ("d", (child...)) with child = "r" | shape of smaller depth"""
    if depth <= 0:
        return
    subs = ["r"] + (list(tree_shapes(depth - 1, width)) if depth > 1 else [])
    for k in range(width + 1):
        for ch in itertools.product(subs, repeat=k):
            yield ("d", tuple(ch))


def shape_depth(s):
    if s == "r":
        return 0
    return 1 + max([shape_depth(c) for c in s[1]] + [0])


def shape_slots(s):
    if s == "r":
        return 1
    return 1 + sum(shape_slots(c) for c in s[1])


def growth_strings(n, maxblocks=None):
    """restricted growth strings of length n: one per partition of n positions (= id-equality pattern)"""
    def rec(prefix, m):
        if len(prefix) == n:
            yield tuple(prefix)
            return
        for v in range(m + 1):
            if maxblocks is not None and v >= maxblocks:
                break
            yield from rec(prefix + [v], max(m, v + 1))
    yield from rec([], 0)


def label_shape(shape, labels):
    """fill ids into a shape in pre-order (a definition's id before its children)"""
    it = iter(labels)

    def rec(s):
        if s == "r":
            return ("r", ALPHABET[next(it)])
        i = ALPHABET[next(it)]
        return ("d", i, tuple(rec(c) for c in s[1]))
    return rec(shape)


def labelled_trees(depth, width, max_slots=None, exact_depth=None):
    """every tree of Def-depth <= depth, <= width children per definition, with every id-equality
    pattern among its id slots.  Yields (tree, nblocks)."""
    for s in tree_shapes(depth, width):
        if exact_depth is not None and shape_depth(s) != exact_depth:
            continue
        n = shape_slots(s)
        if max_slots is not None and n > max_slots:
            continue
        for g in growth_strings(n):
            yield label_shape(s, g), max(g) + 1


def tree_ids(t):
    if t[0] == "r":
        return [t[1]]
    out = [t[1]]
    for c in t[2]:
        out += tree_ids(c)
    return out


def def_ids(t):
    if t[0] == "r":
        return []
    out = [t[1]]
    for c in t[2]:
        out += def_ids(c)
    return out


def tree_size(t):
    return 1 if t[0] == "r" else 1 + sum(tree_size(c) for c in t[2])


def tree_to_json(t, type_name="vt.Stub", log=None, sym=False):
    """abstract specification handed to the real process_object; children under 'children'"""
    def mk(s):
        return SymId(s, log) if sym else s
    if t[0] == "r":
        return mk(t[1])
    return {"id": mk(t[1]), "type": type_name, "children": [tree_to_json(c, type_name, log, sym) for c in t[2]]}


def tree_to_list(t):
    """JSON-able rendering for witnesses"""
    if t[0] == "r":
        return t[1]
    return {"id": t[1], "children": [tree_to_list(c) for c in t[2]]}


# --------------------------------------------------------------------------------------
# one run: registry, trace, adversarial constructor, assumed contract of the recursive call
# --------------------------------------------------------------------------------------


class Run:
    """registry + trace of one execution"""

    def __init__(self, pre_ids, extra=("zz",)):
        self.log = Log()
        self.pre = {}
        for i in list(pre_ids) + [e for e in extra if e not in pre_ids]:
            self.pre[i] = Obj("pre:" + i)
        self.dic = RecDict(self.pre, self.log, "dic")
        self.calls = []   # every observed process_object call with before/after snapshots
        self.ctors = []   # every constructor invocation / contract-created object
        self._fresh = 0

    def fresh_id(self):
        self._fresh += 1
        return "n%d" % self._fresh


HARNESS_EXC = (TimeoutError, Undecided, MemoryError, RecursionError, KeyboardInterrupt, SystemExit)


def reraise_harness(e):
    """an exception that belongs to the verifier (budget alarm of the runner, undecided, resource limits) is never
    an observation about the code under test: re-raise it instead of recording / absorbing it"""
    if isinstance(e, HARNESS_EXC) or (isinstance(e, RuntimeError) and "re-execution" in str(e)):
        raise e


def call_sub(run, po, node, data, path):
    """call the (real or contract) process_object on a node and record the observation"""
    ev = {"path": path, "node": node, "before": run.dic.raw(), "ctor_lo": len(run.ctors), "log_lo": len(run.log)}
    run.calls.append(ev)
    try:
        with run.log.as_("fut"):
            r = po(data, run.dic)
    except BaseException as e:
        reraise_harness(e)
        ev.update(exc=e, after=run.dic.raw(), ctor_hi=len(run.ctors), log_hi=len(run.log))
        raise
    ev.update(ret=r, after=run.dic.raw(), ctor_hi=len(run.ctors), log_hi=len(run.log))
    return r


def make_stub_class(run, base, behaviour):
    """a class whose from_json is the adversarial constructor `behaviour(run, cls, data, dic)`;
    from_json_safe is inherited from the *real* JSONSerializable (base)."""

    class Stub(base):
        @classmethod
        def from_json(cls, data, dic):
            with run.log.as_("env"):
                return behaviour(run, cls, data, dic)
    Stub.__name__ = "Stub"
    Stub.__qualname__ = "Stub"
    return Stub


def enumerating_ctor(chooser, po_getter, max_calls, tree_of):
    """constructor contract, enumerated: calls process_object on any child, any order, up to
    max_calls(k) times (repeats allowed), then returns a fresh object.  Children are found under
    data['children']; tree_of maps id(data) -> (node, path)."""
    def behaviour(run, cls, data, dic):
        node, path = tree_of[id(data)]
        rec = {"path": path, "id": node[1], "in_dic_at_entry": run.dic.raw_has(node[1]), "by": "ctor"}
        run.ctors.append(rec)
        if dic is not run.dic:
            rec["wrong_dic"] = True
        children = dict.__getitem__(data, "children") if isinstance(data, RecDict) else data["children"]
        k = len(children)
        seq = []
        for _ in range(max_calls(k)):
            c = chooser.choose(k + 1, "ctor%s" % (path,))
            if c == 0:
                break
            i = c - 1
            seq.append(i)
            call_sub(run, po_getter(), node[2][i], children[i], path + (i,))
        rec["seq"] = seq
        o = Obj("new:%s@%s" % (node[1], "".join(map(str, path)) or "root"))
        rec["obj"] = o
        return o
    return behaviour


# --------------------------------------------------------------------------------------
# JSON value shapes for remove_comments / expand_plates
# --------------------------------------------------------------------------------------


def json_shapes(depth, width, dict_width=None):
    """JSON values of nesting depth <= depth: leaf | list of <= width values |
    dict of <= dict_width entries with keys plain / underscore-prefixed and an ignore flag in
    {absent, True, False}.  Shapes are descriptions; build with json_build (fresh objects each time)."""
    dict_width = width if dict_width is None else dict_width
    if depth == 0:
        return ["leaf"]
    subs = json_shapes(depth - 1, width, dict_width)
    out = ["leaf"]
    for k in range(width + 1):
        for ch in itertools.product(subs, repeat=k):
            out.append(("list", ch))
    for k in range(dict_width + 1):
        for ch in itertools.product(subs, repeat=k):
            for kinds in itertools.product("pu", repeat=k):
                for ign in (None, True, False):
                    out.append(("dict", tuple(zip(kinds, ch)), ign))
    return out


def json_build(shape, counter=None):
    counter = counter if counter is not None else [0]
    if shape == "leaf":
        counter[0] += 1
        return counter[0]
    if shape[0] == "list":
        return [json_build(c, counter) for c in shape[1]]
    d = {}
    for i, (kind, c) in enumerate(shape[1]):
        d[("_k%d" if kind == "u" else "k%d") % i] = json_build(c, counter)
    if shape[2] is not None:
        d["ignore"] = shape[2]
    return d


# --------------------------------------------------------------------------------------
# AST frame scan: who writes the registry?
# --------------------------------------------------------------------------------------

PROCESS_FAMILY = {"process_object": 1, "process_objects": 1, "process_object_with_key": 2}
DICT_READS = {"get", "keys", "values", "items", "__contains__", "__getitem__"}
DICT_WRITES = {"update", "pop", "popitem", "setdefault", "clear", "__setitem__", "__delitem__", "__ior__"}


def _parents(tree):
    par = {}
    for n in ast.walk(tree):
        for c in ast.iter_child_nodes(n):
            par[c] = n
    return par


class _Fn:
    def __init__(self, module, cls, node, path):
        self.module, self.cls, self.node, self.path = module, cls, node, path
        self.qual = "%s:%s%s" % (module, (cls + ".") if cls else "", node.name)


def _collect_functions(root):
    fns = []
    errors = []
    pkg_root = os.path.dirname(root.rstrip("/"))
    for dp, dn, fn in os.walk(root):
        dn[:] = sorted(d for d in dn if d != "__pycache__")
        for f in sorted(fn):
            if not f.endswith(".py"):
                continue
            p = os.path.join(dp, f)
            mod = os.path.relpath(p, pkg_root)[:-3].replace(os.sep, ".")
            try:
                with open(p) as fh:
                    tree = ast.parse(fh.read(), p)
            except SyntaxError as e:
                errors.append("%s: %s" % (p, e))
                continue

            def visit(node, cls):
                for c in ast.iter_child_nodes(node):
                    if isinstance(c, (ast.FunctionDef, ast.AsyncFunctionDef)):
                        fns.append(_Fn(mod, cls, c, p))
                        visit(c, cls)
                    elif isinstance(c, ast.ClassDef):
                        visit(c, c.name)
                    else:
                        visit(c, cls)
            visit(tree, None)
    return fns, errors


def _param_names(fn):
    a = fn.node.args
    return [x.arg for x in a.posonlyargs + a.args]


def _is_method_with_self(fn):
    if not fn.cls:
        return False
    for d in fn.node.decorator_list:
        if isinstance(d, ast.Name) and d.id == "staticmethod":
            return False
    return True


def _contains_call_to(node, names):
    for n in ast.walk(node):
        if isinstance(n, ast.Call):
            f = n.func
            nm = f.id if isinstance(f, ast.Name) else f.attr if isinstance(f, ast.Attribute) else None
            if nm in names:
                return True
    return False


def _guarded_self_registration(fn, assign, dic_name, par):
    """`dic[X] = Y` is accepted as constructor self-registration iff, in the same statement list,
    X is assigned from data['id'], an earlier `if X in dic: raise` exists with no call that receives
    dic between that test and the store, and Y is what the function returns."""
    tgt = assign.targets[0]
    if not (isinstance(tgt.slice, ast.Name) and isinstance(assign.value, ast.Name)):
        return False, "key or value is not a plain name"
    X, Y = tgt.slice.id, assign.value.id
    block = None
    holder = par.get(assign)
    for field in ("body", "orelse", "finalbody"):
        b = getattr(holder, field, None)
        if isinstance(b, list) and assign in b:
            block = b
    if block is None or holder is not fn.node:
        return False, "store is not a top-level statement of the constructor"
    idx = block.index(assign)
    x_from_id = False
    guard_at = None
    for j, st in enumerate(block[:idx]):
        if isinstance(st, ast.Assign) and len(st.targets) == 1 and isinstance(st.targets[0], ast.Name) \
                and st.targets[0].id == X:
            v = st.value
            x_from_id = isinstance(v, ast.Subscript) and isinstance(v.value, ast.Name) \
                and isinstance(v.slice, ast.Constant) and v.slice.value == "id"
        if isinstance(st, ast.If) and isinstance(st.test, ast.Compare) and len(st.test.ops) == 1 \
                and isinstance(st.test.ops[0], ast.In) and isinstance(st.test.left, ast.Name) and st.test.left.id == X \
                and isinstance(st.test.comparators[0], ast.Name) and st.test.comparators[0].id == dic_name \
                and st.body and isinstance(st.body[-1], ast.Raise):
            guard_at = j
    if not x_from_id:
        return False, "key is not data['id']"
    if guard_at is None:
        return False, "no `if %s in %s: raise` before the store" % (X, dic_name)
    for st in block[guard_at + 1: idx]:
        for n in ast.walk(st):
            if isinstance(n, ast.Call) and any(isinstance(a, ast.Name) and a.id == dic_name
                                               for a in list(n.args) + [k.value for k in n.keywords]):
                return False, "registry passed to a call between the guard and the store"
    rets = [n for n in ast.walk(fn.node) if isinstance(n, ast.Return)]
    if not rets or not all(isinstance(r.value, ast.Name) and r.value.id == Y for r in rets):
        return False, "stored object is not the returned object"
    return True, "guarded by `if %s in %s: raise`; key is data['id']; value is the returned object" % (X, dic_name)


def frame_scan(root):
    """scan every from_json / from_json_safe under `root` (the torchtree package directory) and,
    transitively, every repository function the registry is handed to.

    returns dict(functions=[qualnames scanned], roots=n, flags=[...], self_registrations=[...],
                 direct_reads=[...], unsafe_delegations=[...], parse_errors=[...])
    A flag is anything that is not: a call of the process_* family with the registry in the registry
    position, a from_json/from_json_safe call, a call of a scanned repository function, a read."""
    fns, errors = _collect_functions(root)
    by_name = {}
    for f in fns:
        by_name.setdefault(f.node.name, []).append(f)
    work = []
    seen = set()
    for f in fns:
        if f.node.name in ("from_json", "from_json_safe"):
            names = _param_names(f)
            if "dic" in names:
                work.append((f, "dic"))
            elif len(names) >= 3:
                work.append((f, names[2]))
            else:
                errors.append("%s: cannot identify the registry parameter" % f.qual)
    roots = len(work)
    flags, selfreg, reads, unsafe, scanned, swallow = [], [], [], [], [], []
    while work:
        fn, P = work.pop()
        if (fn.qual, P) in seen:
            continue
        seen.add((fn.qual, P))
        scanned.append(fn.qual)
        par = _parents(fn.node)
        # the process_* family itself is what is under contract: its accesses are the footprint obligation
        if fn.module.endswith("core.utils") and fn.node.name in PROCESS_FAMILY:
            continue
        for n in ast.walk(fn.node):
            if not (isinstance(n, ast.Name) and n.id == P):
                continue
            p = par.get(n)
            where = "%s line %d" % (fn.qual, n.lineno)
            if isinstance(p, ast.Call) and (n in p.args):
                f = p.func
                nm = f.id if isinstance(f, ast.Name) else f.attr if isinstance(f, ast.Attribute) else None
                pos = p.args.index(n)
                if nm in PROCESS_FAMILY:
                    if pos != PROCESS_FAMILY[nm]:
                        flags.append("%s: registry passed to %s in argument position %d" % (where, nm, pos))
                    continue
                if nm in ("from_json", "from_json_safe"):
                    if nm == "from_json" and not (isinstance(f, ast.Attribute) and isinstance(f.value, ast.Call)
                                                  and isinstance(f.value.func, ast.Name) and f.value.func.id == "super") \
                            and fn.node.name != "from_json_safe":
                        unsafe.append("%s: calls .from_json directly (KeyError conversion of the callee is bypassed, "
                                      "the caller's from_json_safe converts it)" % where)
                    continue
                cands = by_name.get(nm, [])
                if not cands:
                    flags.append("%s: registry escapes to unknown callee %s" % (where, nm))
                    continue
                for c in cands:
                    names = _param_names(c)
                    # bound call through an attribute on an instance/class drops self/cls
                    off = 1 if (_is_method_with_self(c) and isinstance(f, ast.Attribute)) else 0
                    if pos + off < len(names):
                        work.append((c, names[pos + off]))
                    else:
                        flags.append("%s: cannot bind registry to a parameter of %s" % (where, c.qual))
                continue
            if isinstance(p, ast.keyword):
                call = par.get(p)
                f = call.func
                nm = f.id if isinstance(f, ast.Name) else f.attr if isinstance(f, ast.Attribute) else None
                if nm in PROCESS_FAMILY and p.arg == "dic":
                    continue
                cands = [c for c in by_name.get(nm, []) if p.arg in _param_names(c)]
                if not cands:
                    flags.append("%s: registry escapes as keyword %s of %s" % (where, p.arg, nm))
                for c in cands:
                    work.append((c, p.arg))
                continue
            if isinstance(p, ast.Subscript) and p.value is n:
                if isinstance(p.ctx, ast.Load):
                    reads.append("%s: %s[...]" % (where, P))
                    continue
                st = par.get(p)
                if isinstance(p.ctx, ast.Store) and isinstance(st, ast.Assign) and len(st.targets) == 1:
                    ok, why = _guarded_self_registration(fn, st, P, par)
                    if ok:
                        selfreg.append("%s: %s" % (where, why))
                        continue
                    flags.append("%s: direct write %s[...] = ... (%s)" % (where, P, why))
                    continue
                flags.append("%s: direct write/delete on %s[...]" % (where, P))
                continue
            if isinstance(p, ast.Compare) and n in p.comparators and all(isinstance(o, (ast.In, ast.NotIn)) for o in p.ops):
                reads.append("%s: in %s" % (where, P))
                continue
            if isinstance(p, ast.Attribute) and p.value is n:
                if p.attr in DICT_READS:
                    reads.append("%s: %s.%s" % (where, P, p.attr))
                elif p.attr in DICT_WRITES:
                    flags.append("%s: %s.%s(...) writes the registry" % (where, P, p.attr))
                else:
                    flags.append("%s: unknown use %s.%s" % (where, P, p.attr))
                continue
            flags.append("%s: registry aliased / escapes (%s)" % (where, type(p).__name__))
        # a constructor must not swallow the parse error of a sub-specification
        for n in ast.walk(fn.node):
            if isinstance(n, ast.Try) and any(_contains_call_to(s, set(PROCESS_FAMILY) | {"from_json", "from_json_safe"})
                                              for s in n.body):
                for h in n.handlers:
                    names = []
                    t = h.type
                    if t is None:
                        names = ["<bare>"]
                    else:
                        for e in (t.elts if isinstance(t, ast.Tuple) else [t]):
                            names.append(e.id if isinstance(e, ast.Name) else e.attr if isinstance(e, ast.Attribute) else "?")
                    if any(x in ("<bare>", "Exception", "BaseException", "JSONParseError") for x in names):
                        reraises = bool(h.body) and isinstance(h.body[-1], ast.Raise)
                        if not reraises:
                            swallow.append("%s line %d: handler for %s does not re-raise" % (fn.qual, h.lineno, names))
    return {"functions": sorted(set(scanned)), "roots": roots, "flags": flags, "self_registrations": selfreg,
            "direct_reads": reads, "unsafe_delegations": unsafe, "swallowed": swallow, "parse_errors": errors}


def function_footprint(func, names):
    """syntactic footprint of the real function `func` on the parameter names `names`:
    list of (name, kind, detail) for every occurrence, from the current source."""
    try:
        tree = ast.parse(textwrap.dedent(inspect.getsource(func)))
    except (OSError, TypeError) as e:
        raise Undecided("source of %s unavailable: %s" % (func.__qualname__, e))
    par = _parents(tree)
    out = []
    for n in ast.walk(tree):
        if isinstance(n, ast.Name) and n.id in names:
            p = par.get(n)
            if isinstance(p, ast.Subscript) and p.value is n:
                kind = {ast.Load: "read[]", ast.Store: "write[]", ast.Del: "del[]"}[type(p.ctx)]
                out.append((n.id, kind, ast.unparse(p.slice)))
            elif isinstance(p, ast.Compare) and n in p.comparators and all(isinstance(o, (ast.In, ast.NotIn)) for o in p.ops):
                out.append((n.id, "in", ast.unparse(p.left)))
            elif isinstance(p, ast.Call) and n in p.args:
                out.append((n.id, "arg", "%s#%d" % (ast.unparse(p.func), p.args.index(n))))
            elif isinstance(p, ast.Attribute):
                out.append((n.id, "attr", p.attr))
            elif isinstance(p, ast.Assign) and n in p.targets:
                out.append((n.id, "rebind", ast.unparse(p.value)))
            elif isinstance(p, ast.Compare) and p.left is n:
                out.append((n.id, "compare", ast.unparse(p)))
            else:
                out.append((n.id, "other:" + type(p).__name__, ast.unparse(p)[:80]))
    return out
