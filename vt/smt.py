"""SMT back end: RF / Cond -> z3 (atoms become real constants with sign axioms)."""
from __future__ import annotations

import math
import time
from fractions import Fraction as Q

import z3

from . import nf

STATS = {"queries": 0, "seconds": 0.0, "unknown": 0}


class Translator:
    """One translator per solver context; atoms map to z3 reals.  Fractional exponents
    of an atom a are expressed through b with b^L = a, b > 0."""

    def __init__(self):
        self.vars = {}
        self.axioms = []
        self.roots = {}

    def atom(self, i):
        v = self.vars.get(i)
        if v is None:
            v = z3.Real("a%d" % i)
            self.vars[i] = v
            kind, payload = nf.ATOMS.atoms[i]
            if nf.ATOMS.positive[i]:
                self.axioms.append(v > 0)
            elif nf.ATOMS.nonneg[i]:
                self.axioms.append(v >= 0)
            if kind == "logc":
                # log of a rational constant: sign and coarse enclosure
                c = payload
                val = math.log(c.numerator) - math.log(c.denominator)
                lo = Q(val - 1e-9).limit_denominator(10 ** 12)
                hi = Q(val + 1e-9).limit_denominator(10 ** 12)
                self.axioms.append(v > z3.Q(lo.numerator, lo.denominator))
                self.axioms.append(v < z3.Q(hi.numerator, hi.denominator))
            elif kind == "e":
                self.axioms.append(v > z3.Q(2718281828, 10 ** 9))
                self.axioms.append(v < z3.Q(2718281829, 10 ** 9))
            elif kind == "root":
                (a,) = nf._FN_ARGS[i]
                self.axioms.append(v == self.rf(a))
            elif kind == "cpow":
                base, ex = payload
                L = ex.denominator
                self.axioms.append(v > 0)
                self.axioms.append(v ** L == z3.Q(base.numerator, base.denominator))
        return v

    def root(self, i, L):
        key = (i, L)
        b = self.roots.get(key)
        if b is None:
            b = z3.Real("r%d_%d" % (i, L))
            self.roots[key] = b
            a = self.atom(i)
            self.axioms.append(b > 0)
            self.axioms.append(_zpow(b, L) == a)
        return b

    def mono(self, m):
        r = None
        for i, e in m:
            if isinstance(e, int) or e.denominator == 1:
                t = _zpow(self.atom(i), int(e))
            else:
                b = self.root(i, e.denominator)
                t = _zpow(b, e.numerator)
            r = t if r is None else r * t
        return z3.RealVal(1) if r is None else r

    def poly(self, p):
        if not p.t:
            return z3.RealVal(0)
        terms = []
        for m, c in p.t.items():
            cz = z3.Q(c.numerator, c.denominator)
            if not m:
                terms.append(cz)
            elif c == 1:
                terms.append(self.mono(m))
            else:
                terms.append(cz * self.mono(m))
        return z3.Sum(terms) if len(terms) > 1 else terms[0]

    def rf(self, x):
        if x.d.is_one():
            return self.poly(x.n)
        return self.poly(x.n) / self.poly(x.d)

    def cond(self, c):
        """c: cond.Cond"""
        # expr rel 0 with sign-aware clearing of the denominator (den may be negative)
        e = c.expr
        if e.d.is_one():
            lhs = self.poly(e.n)
            return _rel(lhs, c.rel)
        n = self.poly(e.n)
        d = self.poly(e.d)
        if nf.poly_positive(e.d):
            return _rel(n, c.rel)
        if c.rel in ("==", "!="):
            return z3.And(d != 0, _rel(n, c.rel))
        return z3.Or(z3.And(d > 0, _rel(n, c.rel)), z3.And(d < 0, _rel(-n, c.rel)))


def _zpow(b, k):
    if k == 0:
        return z3.RealVal(1)
    if k < 0:
        return 1 / _zpow(b, -k)
    r = b
    for _ in range(k - 1):
        r = r * b
    return r


def _rel(lhs, rel):
    if rel == "<":
        return lhs < 0
    if rel == "<=":
        return lhs <= 0
    if rel == "==":
        return lhs == 0
    if rel == "!=":
        return lhs != 0
    raise ValueError(rel)


def check(conds, timeout_ms=10000, extra=None):
    """satisfiability of a conjunction of Conds. returns ('sat', model dict)|('unsat',None)|('unknown',None)"""
    t0 = time.time()
    tr = Translator()
    s = z3.Solver()
    s.set("timeout", timeout_ms)
    fs = [tr.cond(c) for c in conds]
    if extra:
        fs.extend(extra(tr))
    for f in fs:
        s.add(f)
    # axioms may grow while translating
    for a in tr.axioms:
        s.add(a)
    r = s.check()
    STATS["queries"] += 1
    STATS["seconds"] += time.time() - t0
    if r == z3.sat:
        m = s.model()
        out = {}
        for i, v in tr.vars.items():
            val = m.eval(v, model_completion=True)
            out[i] = _z3val(val)
        return "sat", out
    if r == z3.unsat:
        return "unsat", None
    STATS["unknown"] += 1
    return "unknown", None


def _z3val(val):
    try:
        if z3.is_rational_value(val):
            return Q(val.numerator_as_long(), val.denominator_as_long())
        if z3.is_algebraic_value(val):
            a = val.approx(30)
            return Q(a.numerator_as_long(), a.denominator_as_long())
    except Exception:
        pass
    return None


def implies(assumptions, goal, timeout_ms=10000):
    """assumptions ⊢ goal ?  returns True / False (counter-model exists) / None (unknown)"""
    st, m = check(list(assumptions) + [goal.negate()], timeout_ms)
    if st == "unsat":
        return True
    if st == "sat":
        return False
    return None
