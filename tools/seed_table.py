#!/usr/bin/env python3
"""Completes seeded/*/meta.json (needs_to_manifest from note.md, commands run) and prints the markdown table for DESIGN.md."""
import glob, json, os, re
V = os.path.dirname(os.path.dirname(os.path.abspath(__file__)))
rows = []
for d in sorted(glob.glob(os.path.join(V, "seeded", "*"))):
    mp = os.path.join(d, "meta.json")
    if not os.path.exists(mp):
        continue
    m = json.load(open(mp))
    note = open(os.path.join(d, "note.md")).read() if os.path.exists(os.path.join(d, "note.md")) else ""
    paras = [p.strip() for p in re.split(r"\n\s*\n", note) if p.strip()]
    need = next((p for p in paras if re.search(r"trigger|needs|manifest|show(s)? (up|only)", p, re.I)), paras[0] if paras else "")
    m["needs_to_manifest"] = re.sub(r"\s+", " ", need)[:900]
    m["what_was_changed"] = re.sub(r"\s+", " ", paras[0] if paras else "")[:600]
    m["ran"] = ["git -C /repo apply seeded/%s/patch.diff" % os.path.basename(d),
                "cd /repo && /venv/bin/python -m pytest -q -p no:cacheprovider --timeout=900   (with the change: %s)" % m.get("tests_with_change"),
                "REPO_UNDER_TEST=/repo python seeded/%s/demo.py   (with the change: exit %s; without: exit %s)" % (os.path.basename(d), m.get("demo_with_change_exit"), m.get("demo_without_change_exit")),
                "./check <property>   (with the change; see checks_with_change)", "git -C /repo checkout -- ."]
    json.dump(m, open(mp, "w"), indent=1)
    caught_by = []
    for c, v in m.get("checks_with_change", {}).items():
        if v["exit"] == 1:
            caught_by.append("%s: %s%s" % (c, ", ".join(o.split("[")[0] for o in v["first_obligations"][:2]), " (+%d)" % (v["violations"] - 2) if v["violations"] > 2 else ""))
    rows.append("| %s | %s | %s |" % (os.path.basename(d), m["what_was_changed"][:150].replace("|", "/"), "; ".join(caught_by) or "NOT CAUGHT"))
table = "| seed | change | caught by (obligation families) |\n|---|---|---|\n" + "\n".join(rows)
import sys
if "--design" in sys.argv:
    dp = os.path.join(V, "DESIGN.md")
    s = open(dp).read()
    a, b = s.index("<!-- seed-table:begin -->"), s.index("<!-- seed-table:end -->")
    s = s[:a] + "<!-- seed-table:begin -->\n" + table + "\n" + s[b:]
    open(dp, "w").write(s)
else:
    print(table)
