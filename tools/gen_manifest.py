#!/usr/bin/env python3
"""Regenerates /verif/MANIFEST.json from the contract modules (contracts/Cxx.py: MANIFEST dict)
and not_applicable.json. Run with the overlay venv: .venv/bin/python tools/gen_manifest.py"""
import importlib
import json
import os
import sys

V = os.path.dirname(os.path.dirname(os.path.abspath(__file__)))
sys.path.insert(0, V)
sys.path.insert(0, "/repo")
props = [json.loads(l)["id"] for l in open(os.path.join(V, "properties.jsonl"))]
na = json.load(open(os.path.join(V, "not_applicable.json")))
checks = []
claimed = set()
ready = json.load(open(os.path.join(V, "claimed.json")))
for pid in props:
    if pid not in ready or not os.path.exists(os.path.join(V, "contracts", pid + ".py")):
        continue
    mod = importlib.import_module("contracts." + pid)
    m = getattr(mod, "MANIFEST", None)
    if not m:
        continue
    claimed.add(pid)
    note = m["note"]
    evp = os.path.join(V, "evidence", pid + ".json")
    if os.path.exists(evp):
        tags = json.load(open(evp))["coverage"].get("per_tag", {})
        if "B" in tags:
            note = note.rstrip() + (" Obligations tagged B (%d of %d in the quick tier: evaluation-protocol histories against freshly built objects, dtype / device "
                                    "variants, real-underflow instances, JSON variants, numeric stand-ins) are bounded and never counted as proved; U = unbounded, "
                                    "V = proved per enumerated shape." % (tags["B"]["obligations"], sum(t["obligations"] for t in tags.values())))
    checks.append({
        "property_id": pid,
        "quick_cmd": "./check %s --tier quick" % pid,
        "thorough_cmd": "./check %s --tier thorough" % pid,
        "evidence_file": "/verif/evidence/%s.json" % pid,
        "replay_cmd_template": "./check replay {path}",
        "engine": "vt",
        "level_claimed": {"category": m["category"], "text": m["text"], "design_ref": m.get("design_ref", "DESIGN.md section 4, " + pid)},
        "level_note": note,
        "technique": m["technique"],
    })
not_app = []
for pid in props:
    if pid in claimed:
        continue
    reason = na.get(pid) or "no check built yet for this property in the committed state (work in progress; see DESIGN.md section 4)"
    not_app.append({"property_id": pid, "reason": reason})
man = {
    "version": 1,
    "setup_cmd": "./setup.sh",
    "hooks": {
        "guard": "TORCHTREE_VERIF",
        "enable": "no hooks: contracts are sidecar files under /verif/contracts, /repo is imported unmodified from its working tree",
        "baseline_off_cmd": "cd /repo && /venv/bin/python -m pytest -ra -q -p no:cacheprovider --timeout=900 --continue-on-collection-errors",
        "source_commits": [],
        "add_only": True,
    },
    "engines": [{
        "name": "vt",
        "path": "/verif/vt",
        "serves_properties": sorted(claimed),
        "kind_free_text": "contract-based deductive verification: sidecar contracts on the real torchtree functions, executed on symbolic tensors (__torch_function__), verification conditions discharged by an exact normal form (vt.nf) and z3; loop cuts / heap proxies for protocol properties",
    }],
    "checks": checks,
    "not_applicable": not_app,
    "notes": "Exit codes of ./check: 0 held, 1 violation (VIOLATION line), 2 undecided, 3 checker error. known_findings.json lists genuine defects recorded rather than repaired.",
}
json.dump(man, open(os.path.join(V, "MANIFEST.json"), "w"), indent=1)
import jsonschema
jsonschema.validate(man, json.load(open("/root/.vp/MANIFEST.schema.json")))
for c in checks:
    p = c["evidence_file"]
    if os.path.exists(p):
        jsonschema.validate(json.load(open(p)), json.load(open("/root/.vp/EVIDENCE.schema.json")))
print("MANIFEST ok: %d checks, %d not_applicable" % (len(checks), len(not_app)))
