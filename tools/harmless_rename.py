#!/usr/bin/env python3
"""False-alarm guard: builds a scratch copy of the repository in which EVERY function-local variable is renamed (suffix `_h`) and
the source is re-printed by ast.unparse (comments/formatting dropped) — a semantics-preserving edit — so that all checks can be run
against it (VERIF_REPO=<copy>).   usage: harmless_rename.py <dest-dir>
Skipped (left untouched) for safety: names that are parameters of a nested function/lambda, functions using locals()/vars()/eval/exec,
functions with nested classes, names declared global/nonlocal."""
import ast, os, shutil, sys

SRC = os.environ.get("HARMLESS_SRC", "/repo")


class Renamer(ast.NodeTransformer):
    def __init__(self):
        self.count = 0

    def _do(self, fn):
        own_params = {a.arg for a in fn.args.args + fn.args.kwonlyargs + fn.args.posonlyargs}
        if fn.args.vararg:
            own_params.add(fn.args.vararg.arg)
        if fn.args.kwarg:
            own_params.add(fn.args.kwarg.arg)
        banned = set(own_params)
        unsafe = False
        for x in ast.walk(fn):
            if x is fn:
                continue
            if isinstance(x, (ast.FunctionDef, ast.AsyncFunctionDef, ast.Lambda)):
                a = x.args
                banned |= {z.arg for z in a.args + a.kwonlyargs + a.posonlyargs}
                if a.vararg:
                    banned.add(a.vararg.arg)
                if a.kwarg:
                    banned.add(a.kwarg.arg)
                if not isinstance(x, ast.Lambda):
                    banned.add(x.name)
            if isinstance(x, ast.ClassDef):
                unsafe = True
            if isinstance(x, (ast.Global, ast.Nonlocal)):
                banned |= set(x.names)
            if isinstance(x, ast.Call) and isinstance(x.func, ast.Name) and x.func.id in ("locals", "vars", "eval", "exec"):
                unsafe = True
            if isinstance(x, (ast.Import, ast.ImportFrom)):
                for al in x.names:
                    banned.add((al.asname or al.name).split(".")[0])
            if isinstance(x, ast.ExceptHandler) and x.name:
                banned.add(x.name)
            if isinstance(x, (ast.MatchAs, ast.MatchStar)) and getattr(x, "name", None):
                banned.add(x.name)
        if unsafe:
            return
        stored = {x.id for x in ast.walk(fn) if isinstance(x, ast.Name) and isinstance(x.ctx, (ast.Store, ast.Del))}
        names = {n for n in stored - banned if not n.startswith("__")}
        if not names:
            return
        for x in ast.walk(fn):
            if isinstance(x, ast.Name) and x.id in names:
                x.id = x.id + "_h"
                self.count += 1

    def visit_FunctionDef(self, node):
        self._do(node)
        return node     # nested functions are handled as part of the outer one

    visit_AsyncFunctionDef = visit_FunctionDef

    def visit_ClassDef(self, node):
        for st in node.body:
            if isinstance(st, (ast.FunctionDef, ast.AsyncFunctionDef)):
                self._do(st)
            elif isinstance(st, ast.ClassDef):
                self.visit_ClassDef(st)
        return node


def main(dest):
    if os.path.exists(dest):
        shutil.rmtree(dest)
    shutil.copytree(SRC, dest, ignore=shutil.ignore_patterns(".git", "__pycache__", "*.egg-info", ".pytest_cache", "build", "dist"))
    total = 0
    for root, _, files in os.walk(os.path.join(dest, "torchtree")):
        for f in files:
            if not f.endswith(".py"):
                continue
            p = os.path.join(root, f)
            src = open(p).read()
            tree = ast.parse(src)
            r = Renamer()
            tree = r.visit(tree)
            ast.fix_missing_locations(tree)
            open(p, "w").write(ast.unparse(tree) + "\n")
            total += r.count
    print("renamed %d local-variable occurrences in %s" % (total, dest))


if __name__ == "__main__":
    main(sys.argv[1])
