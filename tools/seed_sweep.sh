#!/bin/bash
# re-evaluates every seeded change against the checks recorded for it (plus the property's own check); serial, touches /repo temporarily
cd /verif
for d in seeded/*/; do
  n=$(basename $d); prop=${n%-*}; k=${n#*-}
  extra=$(.venv/bin/python - <<PY
import json
m=json.load(open("$d/meta.json"))
ks=[c for c in m.get("checks_with_change",{}) if c!="$prop"]
add={"C07-1":["C06","C11"],"C15-1":["C16","C17"],"C06-1":["C11"],"C17-1":["C16"]}.get("$n",[])
ks=[k for k in ks if k!="$prop"]
print(" ".join(dict.fromkeys(ks+add)))
PY
)
  echo "== $n extra: $extra"
  .venv/bin/python tools/seed_eval.py $prop $k $extra 2>&1 | grep -E '"caught"|exit' 
done
