#!/usr/bin/env python3
"""Admit independently produced property-breaking changes (seeds) WITHOUT touching /repo: everything runs on a scratch copy of /repo HEAD
(git archive under a fresh temporary directory, removed afterwards).  usage: tools/seed_admit.py <shard> <nshards> <prop>-<k> ...
For each seed: files are taken from /tmp/wt_<prop>/_seed/<k>/ when present (else from /verif/seeded/<id>/), the patch is applied to the copy,
the repository's test suite and the demonstration run there (tests must pass, demonstration must exit 1), the property's check runs with
VERIF_REPO pointing at the copy, then the patch is reverted and the demonstration must exit 0.  Writes seeded/<id>/meta.json (same keys as
tools/seed_eval.py)."""
import json, os, shutil, subprocess, sys, tempfile, time
V = os.path.dirname(os.path.dirname(os.path.abspath(__file__)))
shard, nshards = int(sys.argv[1]), int(sys.argv[2])
ids = [i for k, i in enumerate(sys.argv[3:]) if k % nshards == shard]
head = subprocess.run("git -C /repo log --format=%h -1", shell=True, capture_output=True, text=True).stdout.strip()
for sid in ids:
    prop, k = sid.split("-")
    src = "/tmp/wt_%s/_seed/%s" % (prop, k)
    dst = os.path.join(V, "seeded", sid)
    os.makedirs(dst, exist_ok=True)
    if os.path.isdir(src):
        for f in ("patch.diff", "demo.py", "note.md"):
            if os.path.exists(os.path.join(src, f)) and not (f == "patch.diff" and os.path.exists(os.path.join(dst, ".rebased"))):
                shutil.copy(os.path.join(src, f), os.path.join(dst, f))
    old = {}
    if os.path.exists(os.path.join(dst, "meta.json")):
        old = json.load(open(os.path.join(dst, "meta.json")))
    extra = [c for c in old.get("checks_with_change", {}) if c != prop]
    tmp = tempfile.mkdtemp(prefix="admit_")
    meta = {"property": prop, "seed": k, "repo_head": head}
    for key in ("round", "rebased", "note"):
        if key in old:
            meta[key] = old[key]
    env = dict(os.environ, VERIF_REPO=tmp, REPO_UNDER_TEST=tmp, OMP_NUM_THREADS="1")

    def run(cmd, timeout=3000):
        r = subprocess.run(cmd, shell=True, capture_output=True, text=True, env=env, cwd=tmp, timeout=timeout)
        return r.returncode, r.stdout + r.stderr
    try:
        subprocess.run("git -C /repo archive HEAD | tar -x -C %s" % tmp, shell=True, check=True)
        patch = os.path.join(dst, "patch.diff")
        rc, out = run("patch -p1 -s < %s" % patch)
        meta["applied"], meta["apply_output"] = rc == 0, out[-300:]
        if rc == 0:
            rc_t, out_t = run("/venv/bin/python -m pytest -q -p no:cacheprovider --timeout=900 2>&1 | tail -2")
            meta["tests_with_change"] = out_t.strip().splitlines()[-1] if out_t.strip() else ""
            rc_d, out_d = run("/venv/bin/python %s" % os.path.join(dst, "demo.py"), 900)
            meta["demo_with_change_exit"], meta["demo_with_change_tail"] = rc_d, out_d.strip()[-600:]
            checks = {}
            for c in [prop] + extra:
                t0 = time.time()
                rc_c, out_c = run("cd %s && ./check %s" % (V, c), 4000)
                lines = [l for l in out_c.splitlines() if l.startswith(("VIOLATION", "UNDECIDED", "ERROR", "SUMMARY"))]
                viol = [l.split("obligation=")[1].split(" no-failing")[0] for l in lines if l.startswith("VIOLATION")]
                nfif = sum(1 for l in lines if l.startswith("VIOLATION") and l.endswith("no-failing-input-found"))
                checks[c] = {"exit": rc_c, "violations": len(viol), "no_failing_input_found": nfif, "first_obligations": viol[:6],
                             "summary": [l for l in lines if l.startswith("SUMMARY")][-1:], "seconds": round(time.time() - t0, 1)}
            meta["checks_with_change"] = checks
            run("patch -R -p1 -s < %s" % patch)
            rc_d0, _ = run("/venv/bin/python %s" % os.path.join(dst, "demo.py"), 900)
            meta["demo_without_change_exit"] = rc_d0
    except Exception as e:  # noqa: BLE001
        meta["error"] = "%s: %s" % (type(e).__name__, e)
    finally:
        shutil.rmtree(tmp, ignore_errors=True)
    meta["caught"] = any(c["exit"] == 1 for c in meta.get("checks_with_change", {}).values())
    meta["evaluated_on"] = "scratch copy (tools/seed_admit.py)"
    json.dump(meta, open(os.path.join(dst, "meta.json"), "w"), indent=1)
    print(sid, "applied" if meta.get("applied") else "NOT-APPLIED", "tests:", meta.get("tests_with_change"), "demo", meta.get("demo_with_change_exit"), "->", meta.get("demo_without_change_exit"),
          {c: (v["exit"], v["violations"]) for c, v in meta.get("checks_with_change", {}).items()}, flush=True)
