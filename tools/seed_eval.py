#!/usr/bin/env python3
"""Evaluate an independently produced property-breaking change (seed) against the checks.
usage: tools/seed_eval.py <prop> <k> [extra checks...]   (seed files in /tmp/wt_<prop>/_seed/<k>/ or already in /verif/seeded/<prop>-<k>/)
Applies the patch to /repo, runs the repository tests, the demonstration and the checks, reverts /repo, re-runs the demonstration."""
import json, os, shutil, subprocess, sys, time
V = os.path.dirname(os.path.dirname(os.path.abspath(__file__)))
prop, k = sys.argv[1], sys.argv[2]
extra = sys.argv[3:]
src = "/tmp/wt_%s/_seed/%s" % (prop, k)
dst = os.path.join(V, "seeded", "%s-%s" % (prop, k))
os.makedirs(dst, exist_ok=True)
if os.path.isdir(src):
    for f in ("patch.diff", "demo.py", "note.md"):
        if os.path.exists(os.path.join(src, f)):
            shutil.copy(os.path.join(src, f), os.path.join(dst, f))
patch = os.path.join(dst, "patch.diff")
env = dict(os.environ, REPO_UNDER_TEST="/repo", OMP_NUM_THREADS="1")
def run(cmd, **kw):
    r = subprocess.run(cmd, shell=True, capture_output=True, text=True, env=env, **kw)
    return r.returncode, (r.stdout + r.stderr)
assert run("git -C /repo status --porcelain")[1].strip() == "", "/repo not clean"
rc, out = run("git -C /repo apply %s" % patch)
meta = {"property": prop, "seed": k, "applied": rc == 0, "apply_output": out[-500:]}
try:
    if rc == 0:
        rc_t, out_t = run("cd /repo && /venv/bin/python -m pytest -q -p no:cacheprovider --timeout=900 2>&1 | tail -2")
        meta["tests_with_change"] = out_t.strip().splitlines()[-1] if out_t.strip() else ""
        rc_d, out_d = run("cd /repo && /venv/bin/python %s" % os.path.join(dst, "demo.py"), timeout=900)
        meta["demo_with_change_exit"] = rc_d
        meta["demo_with_change_tail"] = out_d.strip()[-600:]
        checks = {}
        for c in [prop] + extra:
            t0 = time.time()
            rc_c, out_c = run("cd %s && ./check %s" % (V, c), timeout=3000)
            lines = [l for l in out_c.splitlines() if l.startswith(("VIOLATION", "UNDECIDED", "ERROR", "SUMMARY"))]
            viol = [l.split("obligation=")[1].split(" no-failing")[0] for l in lines if l.startswith("VIOLATION")]
            nfif = sum(1 for l in lines if l.startswith("VIOLATION") and l.endswith("no-failing-input-found"))
            checks[c] = {"exit": rc_c, "violations": len(viol), "no_failing_input_found": nfif, "first_obligations": viol[:6],
                         "summary": [l for l in lines if l.startswith("SUMMARY")][-1:] , "seconds": round(time.time() - t0, 1)}
        meta["checks_with_change"] = checks
finally:
    run("git -C /repo checkout -- .")
    run("cd %s && git checkout -- evidence 2>/dev/null" % V)
rc_d0, out_d0 = run("cd /repo && /venv/bin/python %s" % os.path.join(dst, "demo.py"), timeout=900)
meta["demo_without_change_exit"] = rc_d0
meta["caught"] = any(c["exit"] == 1 for c in meta.get("checks_with_change", {}).values())
json.dump(meta, open(os.path.join(dst, "meta.json"), "w"), indent=1)
print(json.dumps({k_: meta.get(k_) for k_ in ("property", "seed", "applied", "tests_with_change", "demo_with_change_exit", "demo_without_change_exit", "caught")}, indent=0))
for c, v in meta.get("checks_with_change", {}).items():
    print(" ", c, "exit", v["exit"], "violations", v["violations"], v["first_obligations"][:3])
