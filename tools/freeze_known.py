#!/usr/bin/env python3
"""For open findings declared with an obligation_prefix, list explicitly the obligations that are refuted
on the current tree (both tiers) under that prefix, so that the suppression is by exact name."""
import json, os, subprocess, sys
V = os.path.dirname(os.path.dirname(os.path.abspath(__file__)))
p = os.path.join(V, "known_findings.json")
d = json.load(open(p))
props = sorted({f["property"] for f in d["findings"] if f["status"] == "open" and f.get("obligation_prefix")})
for pid in props:
    names = set()
    for tier in ("quick", "thorough"):
        subprocess.run([os.path.join(V, "check"), pid, "--tier", tier], capture_output=True, text=True)
        ev = json.load(open(os.path.join(V, "evidence", pid + ".json")))
        for r in ev["coverage"]["obligation_results"]:
            if r["status"] == "refuted":
                names.add(r["name"])
    for f in d["findings"]:
        if f["property"] == pid and f["status"] == "open" and f.get("obligation_prefix"):
            f["obligations"] = sorted(n for n in names if n.startswith(f["obligation_prefix"]))
            print(pid, f["obligation_prefix"], len(f["obligations"]))
json.dump(d, open(p, "w"), indent=1)
