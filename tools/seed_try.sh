#!/bin/bash
# tools/seed_try.sh <prop> <k> <check args...> : run checks against a scratch copy of /repo HEAD with a seed patch applied (does not touch /repo)
prop=$1; k=$2; shift; shift
src=/tmp/wt_$prop/_seed/$k/patch.diff
[ -f $src ] || src=/verif/seeded/$prop-$k/patch.diff
D=$(mktemp -d /tmp/tryXXXX)
git -C /repo archive HEAD torchtree | tar -x -C $D
(cd $D && patch -p1 -s < $src) || { echo "PATCH FAILED"; rm -rf $D; exit 9; }
cd /verif
for c in "$@"; do VERIF_REPO=$D ./check $c 2>&1 | grep -E "^(VIOLATION|UNDECIDED|ERROR|SUMMARY)" | sed 's/replay=[^ ]* //' | cut -c1-230 | tail -4; done
rm -rf $D
