#!/usr/bin/env python3
"""Re-evaluate stored seeded changes against the CURRENT checks without touching /repo: each change is applied to a scratch copy of the
repository (git archive of /repo HEAD under a fresh temporary directory, removed afterwards) and the check of its own property (plus the
other checks recorded for it) is run with VERIF_REPO pointing at the copy.  usage: tools/seed_resweep.py <shard> <nshards> [seed ids...]
Results: seeded/<id>/meta.json gets a "resweep" entry; a line per seed on stdout."""
import json, os, shutil, subprocess, sys, tempfile, time
V = os.path.dirname(os.path.dirname(os.path.abspath(__file__)))
shard, nshards = int(sys.argv[1]), int(sys.argv[2])
only = set(sys.argv[3:])
ids = sorted(os.listdir(os.path.join(V, "seeded")))
ids = [i for k, i in enumerate(ids) if k % nshards == shard and (not only or i in only)]
head = subprocess.run("git -C /repo log --format=%h -1", shell=True, capture_output=True, text=True).stdout.strip()
for sid in ids:
    d = os.path.join(V, "seeded", sid)
    prop = sid.split("-")[0]
    meta = json.load(open(os.path.join(d, "meta.json")))
    extra = [c for c in meta.get("checks_with_change", {}) if c != prop]
    tmp = tempfile.mkdtemp(prefix="resweep_")
    res = {"repo_head": head, "checks": {}}
    try:
        subprocess.run("git -C /repo archive HEAD torchtree | tar -x -C %s" % tmp, shell=True, check=True)
        r = subprocess.run("cd %s && patch -p1 -s < %s" % (tmp, os.path.join(d, "patch.diff")), shell=True, capture_output=True, text=True)
        res["applied"] = r.returncode == 0
        if res["applied"]:
            env = dict(os.environ, VERIF_REPO=tmp, REPO_UNDER_TEST=tmp, OMP_NUM_THREADS="1")
            rd = subprocess.run("/venv/bin/python %s" % os.path.join(d, "demo.py"), shell=True, capture_output=True, text=True, env=env, cwd=tmp, timeout=900)
            res["demo_with_change_exit"] = rd.returncode
            for c in [prop] + extra:
                t0 = time.time()
                rc = subprocess.run("cd %s && ./check %s" % (V, c), shell=True, capture_output=True, text=True, env=env, timeout=4000)
                lines = [l for l in rc.stdout.splitlines() if l.startswith("VIOLATION")]
                res["checks"][c] = {"exit": rc.returncode, "violations": len(lines),
                                    "first_obligations": [l.split("obligation=")[1].split(" no-failing")[0] for l in lines[:4]], "seconds": round(time.time() - t0, 1)}
    except Exception as e:  # noqa: BLE001
        res["error"] = "%s: %s" % (type(e).__name__, e)
    finally:
        shutil.rmtree(tmp, ignore_errors=True)
    res["caught_by_own_check"] = res.get("checks", {}).get(prop, {}).get("exit") == 1
    meta["resweep"] = res
    json.dump(meta, open(os.path.join(d, "meta.json"), "w"), indent=1)
    print(sid, "applied" if res.get("applied") else "NOT-APPLIED", "demo", res.get("demo_with_change_exit"), {c: (v["exit"], v["violations"]) for c, v in res["checks"].items()}, flush=True)
