#!/bin/bash
# tools/mut.sh <python-file-relative-to-repo> <sed-expr> <check args...>   : run a check against a mutated scratch copy
set -e
D=$(mktemp -d /tmp/mutXXXX)
cp -r /repo/torchtree $D/
sed -i "$2" $D/$1
if diff -q /repo/$1 $D/$1 >/dev/null; then echo "MUTATION DID NOT APPLY"; rm -rf $D; exit 9; fi
shift; shift
cd /verif
VERIF_REPO=$D ./check "$@" 2>&1 | grep -E "^(VIOLATION|UNDECIDED|ERROR|SUMMARY|KNOWN)" | cut -c1-260 | tail -6
rm -rf $D
git -C /verif checkout -- evidence 2>/dev/null || true
